--------------------------- MODULE Trace_StmtRules ---------------------------
(* Recorded compilations judged against StmtRules.  One ndjson line per statement:
     [id, what = "from", kind, from, open, close, clear, ok]        a statement with a FROM clause
     [id, what = "attr", structured (0/1), known (0/1), ok]         SELECT x.a FROM #table *)
EXTENDS Integers, Sequences, TLC, Json, IOUtils
R == INSTANCE StmtRules WITH Route <- "shared", c <- 0, pc <- "", stmt <- "", accepted <- FALSE
Lines == ndJsonDeserialize(IOEnv.TRACE_FILE)
VARIABLE l
Want(e) == IF e.what = "from" THEN R!Valid([kind |-> e.kind, from |-> e.from, open |-> e.open, close |-> e.close, clear |-> e.clear])
           ELSE R!AttrValid(e.structured = 1, e.known = 1)
Judge(e) == IF Want(e) = e.ok THEN TRUE
            ELSE PrintT(ToJson([verdict |-> "rejected", id |-> e.id, line |-> l,
                                clause |-> IF Want(e) THEN "spec accepts, code rejects" ELSE "spec rejects, code accepts"]))
Init == l = 1
Next == l <= Len(Lines) /\ Judge(Lines[l]) /\ l' = l + 1
Spec == Init /\ [][Next]_l
Consumed == TLCGet("stats").diameter - 1 = Len(Lines)
=============================================================================
