CONSTANTS
  Variant = "ok"
INIT TInit
NEXT TNext
POSTCONDITION TraceConsumed
CHECK_DEADLOCK FALSE
