\* every well-formed ledger of <= 2 directives over a 6-letter alphabet x up to 3 statements executed
\* one after the other on the same connection (any table; on the default table any of 6 FROM qualifier options, through
\* a FROM clause or by table reference).  HistoryFree: a statement without qualifiers presents the ledger whatever ran before.
CONSTANTS
  Alpha <- ConnAlpha
  MaxLen = 2
  Keys <- SmallKeys
  Mech = "ok"
  MaxStmts = 3
  QualOpts <- QConn
INIT Init
NEXT Next
INVARIANTS TypeOK MechEqDecl LookupsEqDecl HistoryFree RegistryClean RowidInv
CHECK_DEADLOCK FALSE
