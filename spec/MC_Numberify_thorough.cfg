\* thorough: as MC_Numberify.cfg over the thorough space
CONSTANTS
  Space = "thorough"
  Shapes <- ShapesOf
  FmtChoices <- Fmt01
  DCtx <- DCAB
  Prec = "most_common"
  CurSeq <- CS3
  InvNull = "skip"
  Mut = "none"
INIT Init
NEXT Next
INVARIANTS TypeOK Total Correct CorrectGen NoCurrencyDropped SumPreserved NothingInvented PlainIdentity RowsPreserved FreqOrdered
CHECK_DEADLOCK FALSE
