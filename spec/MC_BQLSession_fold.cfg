\* folding law over the expression space, boolean connectives over NULL / TRUE / FALSE included (one state);
\* scan law: the value for a row of a scan is a function of that row alone
CONSTANTS
  Stmts <- Stmts1
  StmtParams <- Params1
  ManyPairs <- Pairs0
  Data <- DataA
  NumberMode = "conforming"
  MaxCalls = 0
INIT Init
NEXT Next
INVARIANTS FoldLaw FoldLawFull ScanLaw
CHECK_DEADLOCK FALSE
