\* folding law over the expression space, boolean connectives over NULL / TRUE / FALSE included (one state)
CONSTANTS
  Stmts <- Stmts1
  StmtParams <- Params1
  ManyPairs <- Pairs0
  Data <- DataA
  NumberMode = "conforming"
  MaxCalls = 0
INIT Init
NEXT Next
INVARIANTS FoldLaw FoldLawFull
CHECK_DEADLOCK FALSE
