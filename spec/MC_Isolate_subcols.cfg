\* non-vacuity: the name -> position map of FROM-subquery tables shared process-wide -- TLC must find the schedule on
\* which a name of one statement is bound to the position it has in another statement's subquery
CONSTANTS
  Threads = {1, 2}
  CompilerScope = "per execution"
  ColumnMemo = "none"
  ParserScope = "per call"
  ScanMemo = "none"
  OperandScope = "per call"
  SubqueryColumns = "process-wide"
  ResultScope = "per execute call"
  JobSet = "subcols"
INIT Init
NEXT Next
INVARIANTS OwnNames
CHECK_DEADLOCK FALSE
