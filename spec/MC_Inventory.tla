---------------------------- MODULE MC_Inventory ----------------------------
(* The laws of the inventory algebra (C12), checked by TLC over an enumerated argument space: one initial
   state per argument tuple, the laws are the invariant.  Numbers are plain integers here (scale 1) so that
   multiplication by a price is exact. *)
EXTENDS Inventory, TLC

CONSTANTS MaxLen,     \* longest sequence of positions
          HomLots     \* 4 or 5 lots in the F(a + b) = F(a) + F(b) space

D1 == 737434   \* 2020-01-10
D2 == 737444   \* 2020-01-20
D3 == 737454   \* 2020-01-30
DEarly == 737000

C1 == <<10, "USD", D1, "">>
C2 == <<12, "USD", D2, "">>
C3 == <<3, "EUR", D1, "">>
LotsS == {<<"USD", NoCost>>, <<"HOOL", C1>>, <<"HOOL", NoCost>>}
LotsM == LotsS \cup {<<"HOOL", C2>>, <<"AAPL", C3>>, <<"EUR", NoCost>>}
NumsS == {-1, 1}
NumsM == {-2, 1, 3}

Prices == { <<"HOOL", "USD", D1, 11>>, <<"HOOL", "USD", D3, 13>>,
            <<"USD", "EUR", D1, 2>>, <<"USD", "EUR", D3, 3>>,
            <<"AAPL", "EUR", D2, 4>> }
Fs == { <<"units", "", 0>>, <<"cost", "", 0>>,
        <<"value", "", 0>>, <<"value", "", D2>>, <<"value", "", DEarly>>,
        <<"convert", "EUR", 0>>, <<"convert", "EUR", D2>>, <<"convert", "EUR", DEarly>>,
        <<"convert", "USD", 0>>, <<"convert", "CAD", 0>> }

InvOver(L, N) == UNION { [S -> N] : S \in SUBSET L }
SeqsUpTo(n, S) == UNION { [1..k -> S] : k \in 0..n }
LotsH == IF HomLots = 5 THEN LotsM \ {<<"EUR", NoCost>>} ELSE LotsM \ {<<"EUR", NoCost>>, <<"HOOL", NoCost>>}
(* sequences of 4 positions: a smaller alphabet (4 lots x 2 numbers), to keep the run in minutes *)
PosM == IF MaxLen >= 4 THEN { <<k, n>> : k \in {<<"USD", NoCost>>, <<"HOOL", C1>>, <<"HOOL", C2>>, <<"AAPL", C3>>}, n \in {-2, 3} }
        ELSE { <<k, n>> : k \in LotsM, n \in NumsM }

VARIABLE arg
(* initial states are computed by one thread: start from seeds and let the workers expand them *)
Init ==
    \/ arg \in {"seed-monoid"} \X InvOver(LotsS, NumsS) \X {0} \X {0}
    \/ arg \in {"seed-hom"} \X InvOver(LotsH, {-2, 1}) \X {0} \X {0}
    \/ arg \in {"seed-seq"} \X SeqsUpTo(1, PosM) \X {0} \X {0}
Next ==
    \/ /\ arg[1] = "seed-monoid"
       /\ arg' \in {"monoid"} \X {arg[2]} \X InvOver(LotsS, NumsS) \X InvOver(LotsS, NumsS)
    \/ /\ arg[1] = "seed-hom"
       /\ arg' \in {"hom"} \X {arg[2]} \X InvOver(LotsH, {1, 3}) \X {0}
    \/ /\ arg[1] = "seed-seq"
       /\ \E rest \in SeqsUpTo(IF arg[2] = <<>> THEN 0 ELSE MaxLen - 1, PosM) :
             LET ps == arg[2] \o rest IN arg' \in {"seq"} \X {ps} \X [1..Len(ps) -> 1..2] \X {0}

Laws ==
    CASE arg[1] = "monoid" -> LawMonoid(arg[2], arg[3], arg[4])
      [] arg[1] = "hom" -> \A f \in Fs : LawHom(f, arg[2], arg[3], Prices, 1)
      [] arg[1] = "seq" -> /\ \A f \in Fs : LawHomSeq(f, arg[2], Prices, 1)
                           /\ LawPartition(arg[2], arg[3])
                           /\ LawPrefix(arg[2])
      [] OTHER -> TRUE
(* the functions really do something on this argument space (non-vacuity of the laws) *)
Sanity ==
    LET p == Pos("HOOL", C1, 2) q == Pos("HOOL", C2, 3) u == Pos("USD", NoCost, 5) IN
    /\ CostP(p, 1) = Pos("USD", NoCost, 20)
    /\ ValueP(p, Prices, 0, 1) = Pos("USD", NoCost, 26) /\ ValueP(p, Prices, D2, 1) = Pos("USD", NoCost, 22)
    /\ ValueP(p, Prices, DEarly, 1) = Pos("HOOL", NoCost, 2) /\ ValueP(u, Prices, 0, 1) = u
    /\ ConvertP(p, Prices, "EUR", 0, 1) = Pos("EUR", NoCost, 78) /\ ConvertP(u, Prices, "EUR", D2, 1) = Pos("EUR", NoCost, 10)
    /\ ConvertP(p, Prices, "CAD", 0, 1) = Pos("HOOL", NoCost, 2)
    /\ Add(Single(p), Single(q)) # Single(Pos("HOOL", C1, 5)) /\ Cardinality(DOMAIN Add(Single(p), Single(q))) = 2
    /\ AddPos(Single(p), Pos("HOOL", C1, -2)) = EmptyInv
    /\ ApplyI(<<"cost", "", 0>>, Add(Single(p), Single(q)), Prices, 1) = Single(Pos("USD", NoCost, 56))
(* deliberately wrong variants that TLC must reject (MC_Inventory_bad.cfg): cost dropped when summing *)
BadSum(ps) == SumSeq([i \in 1..Len(ps) |-> UnitsP(ps[i])])
BadLaw == arg[1] = "seq" => ApplyI(<<"cost", "", 0>>, BadSum(arg[2]), Prices, 1) = SumSeq(MapSeq(<<"cost", "", 0>>, arg[2], Prices, 1))
=============================================================================
