------------------------------- MODULE Balance -------------------------------
(***************************************************************************)
(* The running balance of the postings table and the cache in front of the *)
(* `balance` column (C12), executed by N scanning threads (C20).           *)
(* Code anchors: beanquery/query_env.py  Row (rowid, balance),             *)
(* PostingsTable.__iter__ (one fresh row context per scan), the `balance`  *)
(* column (adds the current posting to the context's inventory, memoised), *)
(* query_execute.execute_select (per row: WHERE conjuncts left to right    *)
(* with short circuit, then the targets left to right),                    *)
(* query_compile.EvalConstantSubquery1D (an IN-subquery is a whole scan    *)
(* run at its first evaluation).                                           *)
(*                                                                         *)
(* A thread executes one program P (a record, constant along a behaviour): *)
(*   ledger   sequence of positions: the postings in ledger order          *)
(*   mask     sequence of BOOLEAN: value of the row filter on posting i    *)
(*   where    conjuncts (FROM expression, then WHERE) in evaluation order  *)
(*            "M"  the row filter          "BT" consults balance, is true  *)
(*            "BN" NOT empty(balance)      "P"  pause point (true)         *)
(*            "S"  IN-subquery (true)                                      *)
(*   targets  "B" balance   "P" pause point   "S" IN-subquery              *)
(*            "A" sum(position) (only in aggregate programs)               *)
(*            "XB" g(x, balance)  "BX" g(balance, x): balance is an operand *)
(*                 of a FUNCTION call next to an operand x that is NULL on *)
(*                 some rows (the call is then NULL)                       *)
(*            "XL" x <op> e(balance): balance under a SHORT-CIRCUIT        *)
(*                 operator (AND, OR, coalesce, a binary operator) whose   *)
(*                 other operand decides the result on some rows           *)
(*   nul      sequence of BOOLEAN (only read for XB / BX / XL): on posting *)
(*            i the operand x is NULL / decides                            *)
(*   subbal   the subquery's own scan consults balance in every row        *)
(*   agg      aggregate query: one output row, sum(position) of selection  *)
(*                                                                         *)
(* CacheMode  "per row context"         property-conforming; what the code *)
(*                  does since fix 678e809 (the row context remembers the  *)
(*                  rowid its balance has been updated for)                *)
(*            "process-wide one entry"  as shipped BEFORE that fix:        *)
(*                  functools.lru_cache(1) at module level, keyed by the   *)
(*                  row context object and its rowid.  Kept as the         *)
(*                  non-vacuity run (TLC must reject it) and to recognise  *)
(*                  a re-introduction of the defect                        *)
(*            "none"                    no memo at all (a realistic edit)  *)
(* ArgEval    how a function call evaluates its operands (query_env.py,   *)
(*            function(): Func.__call__)                                   *)
(*            "all operands, then the NULL test"   what the code does      *)
(*            "stop at the first NULL operand"     a realistic edit: the   *)
(*                  operands after a NULL one are never evaluated -- the   *)
(*                  balance accessor among them.  Non-vacuity run.         *)
(*            A definition (not a CONSTANT): configurations override it.   *)
(*            Short-circuit operators (query_compile.py EvalAnd, EvalOr,   *)
(*            EvalCoalesce, EvalBinaryOp) do NOT evaluate the operands     *)
(*            after the deciding one: modelled as shipped; TLC rejects it  *)
(*            (MC_Balance_C12_lazy.cfg), a known finding.                  *)
(* Split      TRUE: an evaluation of the column is three steps (lookup,    *)
(*            compute, store), as the C cache wrapper really interleaves   *)
(***************************************************************************)
EXTENDS Inventory, TLC

CONSTANTS Threads, CacheMode, Split

Shared == "process-wide one entry"
PerCtx == "per row context"
AllOperands == "all operands, then the NULL test"
StopAtNull == "stop at the first NULL operand"
ArgEval == AllOperands

(* what a NULL target value looks like among inventories (trace files write it the same way) *)
NullInv == [k \in {<<"NULL", NoCost>>} |-> 1]
Nested == {"XB", "BX", "XL"}
IsBalT(a) == a = "B" \/ a \in Nested

VARIABLES
    prog,       \* [Threads -> program]
    ctx,        \* [Threads -> [rowid, bal, mrow, mval, agg, nsel]]  row context of the thread's main scan
    pc,         \* [Threads -> [ph, i, k]]  ph: next | where | target | emit | done ; i: conjunct / target index
    cur,        \* [Threads -> Seq(inventory)]  balance values delivered to the targets of the current row
    out,        \* [Threads -> Seq([rowid, vals])]  rows emitted so far
    subdone,    \* [Threads -> set of <<ph, i>>]  the IN-subqueries already evaluated (each occurrence memoises its result)
    cache,      \* the process-wide entry [owner, scan, rowid, val]; owner 0 = empty
    consulted   \* history: [Threads -> set of rowids of the main scan for which balance has been consulted]

vars == <<prog, ctx, pc, cur, out, subdone, cache, consulted>>

NoEntry == [owner |-> 0, scan |-> 0, rowid |-> 0, val |-> EmptyInv]
Ctx0 == [rowid |-> 0, bal |-> EmptyInv, mrow |-> 0, mval |-> EmptyInv, agg |-> EmptyInv, nsel |-> 0]
Pc(ph, i) == [ph |-> ph, i |-> i, k |-> ""]

InitWith(progs) ==
    /\ prog = progs
    /\ ctx = [t \in Threads |-> Ctx0]
    /\ pc = [t \in Threads |-> Pc("next", 0)]
    /\ cur = [t \in Threads |-> <<>>]
    /\ out = [t \in Threads |-> <<>>]
    /\ subdone = [t \in Threads |-> {}]
    /\ cache = NoEntry
    /\ consulted = [t \in Threads |-> {}]

-----------------------------------------------------------------------------
(* where the program counter goes after conjunct / target i *)
Norm(P, ph, i) ==
    IF ph = "where" /\ i > Len(P.where)
    THEN (IF Len(P.targets) = 0 THEN Pc("emit", 0) ELSE Pc("target", 1))
    ELSE IF ph = "target" /\ i > Len(P.targets) THEN Pc("emit", 0)
    ELSE Pc(ph, i)
Advance(t) == pc' = [pc EXCEPT ![t] = Norm(prog[t], pc[t].ph, pc[t].i + 1)]
SkipRow(t) == pc' = [pc EXCEPT ![t] = Pc("next", 0)]
InRow(t) == pc[t].ph \in {"where", "target"}
Atom(t) == IF pc[t].ph = "where" THEN prog[t].where[pc[t].i] ELSE prog[t].targets[pc[t].i]
IsBal(a) == a \in {"B", "BT", "BN"}

NextRow(t) ==
    /\ pc[t].ph = "next" /\ ctx[t].rowid < Len(prog[t].ledger)
    /\ ctx' = [ctx EXCEPT ![t].rowid = @ + 1]
    /\ pc' = [pc EXCEPT ![t] = Norm(prog[t], "where", 1)]
    /\ cur' = [cur EXCEPT ![t] = <<>>]
    /\ UNCHANGED <<prog, out, subdone, cache, consulted>>

(* the scan is over; an aggregate query now finalizes its one group (no row when nothing qualified) *)
Finish(t) ==
    /\ pc[t].ph = "next" /\ ctx[t].rowid = Len(prog[t].ledger)
    /\ pc' = [pc EXCEPT ![t] = Pc("done", 0)]
    /\ out' = IF prog[t].agg /\ ctx[t].nsel > 0
              THEN [out EXCEPT ![t] = << [rowid |-> 0, vals |-> <<ctx[t].agg>>] >>]
              ELSE out
    /\ UNCHANGED <<prog, ctx, cur, subdone, cache, consulted>>

(* what happens with the value v the column delivered *)
Deliver(t, v) ==
    IF pc[t].ph = "where"
    THEN /\ (IF Atom(t) = "BN" /\ v = EmptyInv THEN SkipRow(t) ELSE Advance(t))
         /\ UNCHANGED cur
    ELSE /\ Advance(t)
         /\ cur' = [cur EXCEPT ![t] = Append(@, v)]

Hit(t) ==
    CASE CacheMode = Shared -> cache.owner = t /\ cache.scan = 0 /\ cache.rowid = ctx[t].rowid
      [] CacheMode = PerCtx -> ctx[t].mrow = ctx[t].rowid
      [] OTHER -> FALSE
Memo(t) == IF CacheMode = Shared THEN cache.val ELSE ctx[t].mval
Added(t) == AddPos(ctx[t].bal, prog[t].ledger[ctx[t].rowid])
(* remember v as the value of the current row *)
StoreMemo(t, v) ==
    /\ cache' = IF CacheMode = Shared THEN [owner |-> t, scan |-> 0, rowid |-> ctx[t].rowid, val |-> v] ELSE cache

(* one evaluation of the balance column, atomic *)
EvalBalance(t) ==
    /\ ~Split /\ InRow(t) /\ IsBal(Atom(t))
    /\ consulted' = [consulted EXCEPT ![t] = @ \cup {ctx[t].rowid}]
    /\ IF Hit(t)
       THEN /\ Deliver(t, Memo(t))
            /\ UNCHANGED <<ctx, cache>>
       ELSE /\ Deliver(t, Added(t))
            /\ ctx' = [ctx EXCEPT ![t].bal = Added(t),
                                  ![t].mrow = IF CacheMode = PerCtx THEN ctx[t].rowid ELSE @,
                                  ![t].mval = IF CacheMode = PerCtx THEN Added(t) ELSE @]
            /\ StoreMemo(t, Added(t))
    /\ UNCHANGED <<prog, out, subdone>>

(* the same in three steps *)
Lookup(t) ==
    /\ Split /\ InRow(t) /\ IsBal(Atom(t)) /\ pc[t].k = ""
    /\ consulted' = [consulted EXCEPT ![t] = @ \cup {ctx[t].rowid}]
    /\ IF Hit(t)
       THEN Deliver(t, Memo(t))
       ELSE pc' = [pc EXCEPT ![t].k = "miss"] /\ UNCHANGED cur
    /\ UNCHANGED <<prog, ctx, out, subdone, cache>>
Compute(t) ==
    /\ Split /\ InRow(t) /\ pc[t].k = "miss"
    /\ ctx' = [ctx EXCEPT ![t].bal = Added(t)]
    /\ pc' = [pc EXCEPT ![t].k = "store"]
    /\ UNCHANGED <<prog, cur, out, subdone, cache, consulted>>
Store(t) ==
    /\ Split /\ InRow(t) /\ pc[t].k = "store"
    /\ ctx' = [ctx EXCEPT ![t].mrow = IF CacheMode = PerCtx THEN ctx[t].rowid ELSE @,
                          ![t].mval = IF CacheMode = PerCtx THEN ctx[t].bal ELSE @]
    /\ StoreMemo(t, ctx[t].bal)
    /\ Deliver(t, ctx[t].bal)
    /\ UNCHANGED <<prog, out, subdone, consulted>>

(* balance as an operand of an enclosing expression whose other operand x is NULL (decides) on some rows.
   A function call evaluates its operands left to right and tests for NULL afterwards; a short-circuit operator
   returns as soon as x has decided and never calls the accessor in that row. *)
NulHere(t) == prog[t].nul[ctx[t].rowid]
SkipsAccessor(t) ==
    \/ Atom(t) = "XL" /\ NulHere(t)
    \/ Atom(t) = "XB" /\ NulHere(t) /\ ArgEval = StopAtNull
EvalNested(t) ==
    /\ pc[t].ph = "target" /\ Atom(t) \in Nested
    /\ IF SkipsAccessor(t)
       THEN /\ Deliver(t, NullInv)
            /\ UNCHANGED <<ctx, cache, consulted>>
       ELSE /\ consulted' = [consulted EXCEPT ![t] = @ \cup {ctx[t].rowid}]
            /\ IF Hit(t)
               THEN /\ Deliver(t, IF NulHere(t) THEN NullInv ELSE Memo(t))
                    /\ UNCHANGED <<ctx, cache>>
               ELSE /\ Deliver(t, IF NulHere(t) THEN NullInv ELSE Added(t))
                    /\ ctx' = [ctx EXCEPT ![t].bal = Added(t),
                                          ![t].mrow = IF CacheMode = PerCtx THEN ctx[t].rowid ELSE @,
                                          ![t].mval = IF CacheMode = PerCtx THEN Added(t) ELSE @]
                    /\ StoreMemo(t, Added(t))
    /\ UNCHANGED <<prog, out, subdone>>

(* the row filter *)
Mask(t) ==
    /\ pc[t].ph = "where" /\ Atom(t) = "M"
    /\ IF prog[t].mask[ctx[t].rowid] THEN Advance(t) ELSE SkipRow(t)
    /\ UNCHANGED <<prog, ctx, cur, out, subdone, cache, consulted>>

(* a pause point: the thread can be descheduled here for as long as the scheduler likes *)
Yield(t) ==
    /\ InRow(t) /\ Atom(t) = "P"
    /\ Advance(t)
    /\ UNCHANGED <<prog, ctx, cur, out, subdone, cache, consulted>>

(* an IN-subquery: at its first evaluation ANOTHER scan of the same table runs to completion, with a row context
   of its own; when that scan consults balance it leaves its last row in the process-wide entry *)
Interpose(t) ==
    /\ InRow(t) /\ Atom(t) = "S"
    /\ Advance(t)
    /\ subdone' = [subdone EXCEPT ![t] = @ \cup {<<pc[t].ph, pc[t].i>>}]
    /\ cache' = IF <<pc[t].ph, pc[t].i>> \notin subdone[t] /\ CacheMode = Shared /\ prog[t].subbal /\ Len(prog[t].ledger) > 0
                THEN [owner |-> t, scan |-> 1, rowid |-> Len(prog[t].ledger), val |-> SumSeq(prog[t].ledger)]
                ELSE cache
    /\ UNCHANGED <<prog, ctx, cur, out, consulted>>

(* sum(position): the aggregator's update for a qualifying row *)
UpdateAgg(t) ==
    /\ pc[t].ph = "target" /\ Atom(t) = "A"
    /\ Advance(t)
    /\ ctx' = [ctx EXCEPT ![t].agg = AddPos(@, prog[t].ledger[ctx[t].rowid])]
    /\ UNCHANGED <<prog, cur, out, subdone, cache, consulted>>

EmitRow(t) ==
    /\ pc[t].ph = "emit"
    /\ pc' = [pc EXCEPT ![t] = Pc("next", 0)]
    /\ ctx' = [ctx EXCEPT ![t].nsel = @ + 1]
    /\ out' = IF prog[t].agg THEN out
              ELSE [out EXCEPT ![t] = Append(@, [rowid |-> ctx[t].rowid, vals |-> cur[t]])]
    /\ cur' = [cur EXCEPT ![t] = <<>>]
    /\ UNCHANGED <<prog, subdone, cache, consulted>>

Step(t) ==
    \/ NextRow(t) \/ Finish(t) \/ EvalBalance(t) \/ Lookup(t) \/ Compute(t) \/ Store(t) \/ EvalNested(t)
    \/ Mask(t) \/ Yield(t) \/ Interpose(t) \/ UpdateAgg(t) \/ EmitRow(t)
Next == \E t \in Threads : Step(t)
Done(t) == pc[t].ph = "done"
AllDone == \A t \in Threads : Done(t)
(* a pause-point step or the last step of a thread: where a deterministic scheduler hands over *)
YieldStep(t) == InRow(t) /\ Atom(t) = "P"

-----------------------------------------------------------------------------
(* THE PROPERTY, declaratively.  C12: the value delivered for a selected posting is the inventory sum of
   `position` over the postings for which balance has been consulted up to and including it. *)
NB(P) == Cardinality({j \in 1..Len(P.targets) : IsBalT(P.targets[j])})
(* the j-th target that references balance, and what it shows on posting r when the balance there is s: a reference
   under an enclosing expression shows NULL where the other operand is NULL (decides) -- the balance ITSELF is the
   same for every reference, wherever it sits in the target list and whatever encloses it *)
KindOf(P, j) == SelectSeq(P.targets, IsBalT)[j]
Shown(P, j, r, s) == IF KindOf(P, j) \in Nested /\ P.nul[r] THEN NullInv ELSE s
ConsultsInWhere(P) == \E j \in 1..Len(P.where) : IsBal(P.where[j])
HasMask(P) == \E j \in 1..Len(P.where) : P.where[j] = "M"

(* evaluation of the conjuncts of row r: s = sum of the consulted postings before this row, c = consulted in this row *)
RECURSIVE WhereFrom(_, _, _, _, _)
WhereFrom(P, r, i, s, c) ==
    IF i > Len(P.where) THEN [sel |-> TRUE, s |-> s, c |-> c]
    ELSE LET a == P.where[i]
             s2 == IF IsBal(a) /\ ~c THEN AddPos(s, P.ledger[r]) ELSE s
             c2 == c \/ IsBal(a)
             truth == CASE a = "M" -> P.mask[r] [] a = "BN" -> s2 # EmptyInv [] OTHER -> TRUE
         IN IF truth THEN WhereFrom(P, r, i + 1, s2, c2) ELSE [sel |-> FALSE, s |-> s2, c |-> c2]
RowResult(P, r, s) ==
    LET w == WhereFrom(P, r, 1, s, FALSE)
        s3 == IF w.sel /\ NB(P) > 0 /\ ~w.c THEN AddPos(w.s, P.ledger[r]) ELSE w.s
    IN [sel |-> w.sel, s |-> s3]
RECURSIVE SerialFrom(_, _, _)
SerialFrom(P, r, s) ==
    IF r > Len(P.ledger) THEN <<>>
    ELSE LET res == RowResult(P, r, s)
         IN (IF res.sel THEN << [rowid |-> r, vals |-> [j \in 1..NB(P) |-> Shown(P, j, r, res.s)]] >> ELSE <<>>)
            \o SerialFrom(P, r + 1, res.s)
RECURSIVE SelectedFrom(_, _, _)
SelectedFrom(P, r, s) ==     \* rowids of the qualifying rows
    IF r > Len(P.ledger) THEN {}
    ELSE LET res == RowResult(P, r, s) IN (IF res.sel THEN {r} ELSE {}) \cup SelectedFrom(P, r + 1, res.s)
(* what the query returns when it runs alone *)
SerialRows(P) ==
    IF P.agg
    THEN LET S == SelectedFrom(P, 1, EmptyInv)
         IN IF S = {} THEN <<>> ELSE << [rowid |-> 0, vals |-> <<SumIdx(P.ledger, S)>>] >>
    ELSE SerialFrom(P, 1, EmptyInv)
(* the IN-subquery's own result: SELECT id FROM postings WHERE NOT empty(balance) / WHERE <row filter> *)
SubResult(P) ==
    IF P.subbal THEN {j \in 1..Len(P.ledger) : SumIdx(P.ledger, 1..j) # EmptyInv}
    ELSE {j \in 1..Len(P.ledger) : P.mask[j]}

IsPrefix(s, t) == Len(s) <= Len(t) /\ s = SubSeq(t, 1, Len(s))

TypeOK ==
    \A t \in Threads :
        /\ pc[t].ph \in {"next", "where", "target", "emit", "done"}
        /\ ctx[t].rowid \in 0..Len(prog[t].ledger)
        /\ IsInventory(ctx[t].bal)
        /\ consulted[t] \subseteq 1..ctx[t].rowid

(* C12, first formulation, over the history variable: every delivered value is the sum over the consulted postings *)
ConsultedInv ==
    \A t \in Threads :
        /\ ~prog[t].agg =>
             \A n \in 1..Len(out[t]) : \A j \in 1..Len(out[t][n].vals) :
                 out[t][n].vals[j] = Shown(prog[t], j, out[t][n].rowid,
                                           SumIdx(prog[t].ledger, {x \in consulted[t] : x <= out[t][n].rowid}))
        /\ \A j \in 1..Len(cur[t]) : cur[t][j] = Shown(prog[t], j, ctx[t].rowid, SumIdx(prog[t].ledger, consulted[t]))
(* ... hence: no condition consults it => prefix sum over the selection, independent of the number of references *)
PrefixSumInv ==
    \A t \in Threads : (~prog[t].agg /\ ~ConsultsInWhere(prog[t])) =>
        LET P == prog[t]
            Sel == {r \in 1..Len(P.ledger) : ~HasMask(P) \/ P.mask[r]}
        IN \A n \in 1..Len(out[t]) :
              /\ out[t][n].rowid \in Sel
              /\ Len(out[t][n].vals) = NB(P)
              /\ \A j \in 1..NB(P) : out[t][n].vals[j] =
                     Shown(P, j, out[t][n].rowid, SumIdx(P.ledger, {r \in Sel : r <= out[t][n].rowid}))
(* ... the last balance is sum(position) of the same selection, and every selected posting has its row *)
LastInv ==
    \A t \in Threads : (Done(t) /\ ~prog[t].agg /\ ~ConsultsInWhere(prog[t])) =>
        LET P == prog[t]
            Sel == {r \in 1..Len(P.ledger) : ~HasMask(P) \/ P.mask[r]}
        IN /\ {out[t][n].rowid : n \in 1..Len(out[t])} = Sel /\ Len(out[t]) = Cardinality(Sel)
           /\ (NB(P) > 0 /\ Sel # {}) =>
                 \A j \in 1..NB(P) : out[t][Len(out[t])].vals[j] = Shown(P, j, out[t][Len(out[t])].rowid, SumIdx(P.ledger, Sel))
(* ... a condition that consults it first: the sum over all postings scanned so far *)
ScannedInv ==
    \A t \in Threads : (~prog[t].agg /\ Len(prog[t].where) > 0 /\ IsBal(prog[t].where[1])) =>
        \A n \in 1..Len(out[t]) : \A j \in 1..Len(out[t][n].vals) :
            out[t][n].vals[j] = Shown(prog[t], j, out[t][n].rowid, SumIdx(prog[t].ledger, 1..out[t][n].rowid))

(* C12 second formulation and C20: what a thread has emitted is what the query returns when it runs alone *)
SerialInv ==
    \A t \in Threads :
        /\ IsPrefix(out[t], SerialRows(prog[t]))
        /\ Done(t) => out[t] = SerialRows(prog[t])

(* C20: a step of one thread changes nothing that belongs to another thread, and (property-conforming
   mechanism) there is no shared variable left *)
NonInterference ==
    [][\A u \in Threads : pc'[u] = pc[u] =>
          /\ ctx'[u] = ctx[u] /\ cur'[u] = cur[u] /\ out'[u] = out[u]
          /\ subdone'[u] = subdone[u] /\ consulted'[u] = consulted[u]]_vars
NoSharedState == [][CacheMode # Shared => cache' = cache]_vars
ProgConstant == [][prog' = prog]_vars

Fairness == \A t \in Threads : WF_vars(Step(t))
Termination == <>AllDone
=============================================================================
