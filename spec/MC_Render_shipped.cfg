\* the expansion rule as shipped: a row whose list cells are all empty takes 0 lines.  TLC must violate SkeletonInv.
CONSTANTS
  Tables <- TTiny
  NullLens <- NL03
  SepLens <- SL2
  WidthRule = "full"
  ExpandRule = "shipped"
  CsvCtx = "own"
INIT Init
NEXT Next
INVARIANTS SkeletonInv
CHECK_DEADLOCK FALSE
