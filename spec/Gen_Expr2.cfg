CONSTANTS
  MaxDepth = 2
  EmitMode = "typed"
INIT Init
NEXT Next
INVARIANTS TypeSound StrictNull DivModLaw Emit EmitTab
CHECK_DEADLOCK FALSE
