----------------------------- MODULE Gen_Cursor -----------------------------
(* Behaviour generator for the spec->code replay of Cursor: the same actions with a history variable;
   one JSON line per behaviour of length Depth (every shorter behaviour is a prefix of one of them). *)
EXTENDS MC_Cursor
(* ---- generator: the same actions with a history variable; one JSON line per maximal behaviour ---- *)
VARIABLE hist
CONSTANT Depth

Obs(c) == [rownumber |-> RowNumber(c), rowcount |-> RowCount(c), arraysize |-> arraysize[c],
           desc |-> Description(c)]

GInit == Init /\ hist = <<>>
GNext == /\ Len(hist) < Depth
         /\ Next
         /\ hist' = Append(hist, [op |-> out'.op, c |-> out'.c, arg |-> out'.arg, val |-> out'.val,
                                  obs |-> [rownumber |-> pos'[out'.c],
                                           rowcount |-> IF ~executed'[out'.c] THEN -1 ELSE Len(result'[out'.c]),
                                           arraysize |-> arraysize'[out'.c],
                                           desc |-> desc'[out'.c]],
                                  others |-> [d \in Cursors |-> <<pos'[d], IF ~executed'[d] THEN -1 ELSE Len(result'[d])>>]])
GSpec == GInit /\ [][GNext]_<<vars, hist>>
Emit == (Len(hist) = Depth) => PrintT(ToJson([hist |-> hist]))


EmitDesc == hist = hist /\ PrintT(ToJson(DescTable))
DInit == GInit
DNext == FALSE /\ UNCHANGED <<vars, hist>>
=============================================================================
