\* exhaustive (thorough): all histories of <= 5 calls on 4 statement objects x 3 parameter values, every executemany pair
CONSTANTS
  Stmts <- Stmts4
  StmtParams <- Params4
  ManyPairs <- Pairs9
  Data <- DataA
  NumberMode = "conforming"
  MaxCalls = 5
INIT Init
NEXT Next
INVARIANTS TypeOK ResultInv DataUnchanged
PROPERTIES ResultIsDenote DataNeverChanges
CHECK_DEADLOCK FALSE
