\* C12, exhaustive: one thread, every program over ledgers of up to 3 postings, property-conforming cache
CONSTANTS
  Threads = {1}
  CacheMode = "per row context"
  Split = FALSE
  Programs = 0
INIT Init12
NEXT Next
INVARIANTS TypeOK ConsultedInv PrefixSumInv LastInv ScannedInv SerialInv
PROPERTIES NonInterference NoSharedState ProgConstant
CHECK_DEADLOCK FALSE
