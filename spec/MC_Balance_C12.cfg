\* C12, exhaustive: one thread, every program over ledgers of up to 3 postings, property-conforming cache
CONSTANTS
  Threads = {1}
  CacheMode = "per row context"
  Split = FALSE
  Programs <- Progs12_3
INIT Init
NEXT Next
INVARIANTS TypeOK ConsultedInv PrefixSumInv LastInv ScannedInv SerialInv
PROPERTIES NonInterference NoSharedState ProgConstant
CHECK_DEADLOCK FALSE
