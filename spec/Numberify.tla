------------------------------ MODULE Numberify ------------------------------
(***************************************************************************)
(* beanquery/numberify.py -- splitting Amount / Position / Inventory        *)
(* columns into one decimal column per currency (C17).                      *)
(*                                                                         *)
(* Part 1 states the property declaratively as a RELATION between an input  *)
(* table and an output table (Accepts); everything the statement leaves     *)
(* open is left open: order among equally frequent currencies, NULL versus  *)
(* zero for a quantity of zero, the rounding of an exact tie, whether a     *)
(* currency that only ever occurs with the number zero gets a column and    *)
(* whether such occurrences count in the frequency.                         *)
(*                                                                         *)
(* Part 2 is the mechanism as the code does it (census pass per column,     *)
(* converter construction sorted by (count, currency) descending, per-row   *)
(* conversion with half-even quantisation, NULL for a zero number).  TLC    *)
(* proves that every result of the mechanism is accepted by Part 1.         *)
(* InvNull = "skip" is the mechanism as the code has it since fix e9990d2   *)
(* (None skipped in the census, NULL from the converter); "raise" is the    *)
(* mechanism as shipped before that fix (a NULL cell in an Inventory column *)
(* raises AttributeError), kept as documentation and non-vacuity run.  Mut  *)
(* selects deliberately broken mechanisms for the non-vacuity runs.         *)
(*                                                                         *)
(* Abstract values (type-uniform so that TLC never compares unlike kinds):  *)
(*   rational   <<num, den>>, den > 0, reduced                             *)
(*   lot        [n |-> rational, c |-> currency, k |-> <<>> | cost number]  *)
(*   input cell [tok |-> Int, isnull |-> 0|1, lots |-> Seq(lot)]           *)
(*              plain cell: tok >= 0 identifies the value, lots = <<>>      *)
(*              Amount / Position: exactly one lot; Inventory: any bag      *)
(*   output cell [tok |-> Int, num |-> <<>> (NULL) | rational]             *)
(*   column     [name |-> STRING, ty |-> STRING]                           *)
(*   Q          sequence of <<currency, fractional digits>>; a currency not *)
(*              listed has no display precision (quantize is the identity)  *)
(*   display context  sequence of <<currency, most common number of         *)
(*              fractional digits, maximum number of fractional digits>>    *)
(*   formatter  a display context together with ONE precision setting       *)
(*              ("most_common", the default of build(), or "maximum"): the  *)
(*              display precision of a currency under a formatter is the    *)
(*              one of ITS setting (FormatterQ)                             *)
(***************************************************************************)
EXTENDS Integers, Sequences, FiniteSets, TLC

-----------------------------------------------------------------------------
(* Rationals (all intermediate products stay below 2^31 when |value| < 2*10^4 with <= 4 fractional digits) *)
Abs(x) == IF x < 0 THEN -x ELSE x
Min(a, b) == IF a < b THEN a ELSE b
Max(a, b) == IF a > b THEN a ELSE b
RECURSIVE GCD(_, _)
GCD(a, b) == IF b = 0 THEN a ELSE GCD(b, a % b)
LCM(a, b) == (a \div GCD(a, b)) * b
Norm(n, d) == LET g == GCD(Abs(n), d) IN <<n \div g, d \div g>>
Zero == <<0, 1>>
RAdd(x, y) == LET L == LCM(x[2], y[2]) IN Norm(x[1] * (L \div x[2]) + y[1] * (L \div y[2]), L)
Pow10(q) == CASE q = 0 -> 1 [] q = 1 -> 10 [] q = 2 -> 100 [] q = 3 -> 1000 [] q = 4 -> 10000
              [] q = 5 -> 100000 [] q = 6 -> 1000000

(* x expressed in units of 10^-q: x = (fl + rem/u) * 10^-q with 0 <= rem < u *)
QParts(x, q) ==
    LET p == Pow10(q)
        L == LCM(x[2], p)
        xs == x[1] * (L \div x[2])
        u == L \div p
        fl == xs \div u
    IN [p |-> p, u |-> u, fl |-> fl, rem |-> xs - fl * u]

(* the property: "quantized to the display precision" = a nearest multiple of 10^-q; an exact tie may go either way *)
Nearest(x, q) ==
    LET a == QParts(x, q)
    IN  { Norm(m, a.p) : m \in {mm \in {a.fl, a.fl + 1} : 2 * Abs((mm - a.fl) * a.u - a.rem) <= a.u} }

(* the mechanism: Decimal.quantize under the default context, ROUND_HALF_EVEN *)
HalfEven(x, q) ==
    LET a == QParts(x, q)
        m == IF 2 * a.rem < a.u THEN a.fl
             ELSE IF 2 * a.rem > a.u THEN a.fl + 1
             ELSE IF a.fl % 2 = 0 THEN a.fl ELSE a.fl + 1
    IN Norm(m, a.p)

-----------------------------------------------------------------------------
(* Part 1: the property *)
AmtTypes == {"Amount", "Position", "Inventory"}
IsAmt(col) == col.ty \in AmtTypes
NewName(n, c) == n \o " (" \o c \o ")"
Range(s) == {s[i] : i \in DOMAIN s}
(* the display precisions of a formatter built from display context dc for the precision setting prec *)
FormatterQ(dc, prec) == [i \in DOMAIN dc |-> <<dc[i][1], IF prec = "maximum" THEN dc[i][3] ELSE dc[i][2]>>]
QOf(q, c) == IF \E i \in DOMAIN q : q[i][1] = c THEN q[CHOOSE i \in DOMAIN q : q[i][1] = c][2] ELSE -1

CurOfCell(cell) == {cell.lots[k].c : k \in DOMAIN cell.lots}
CurAll(rows, j) == UNION {CurOfCell(rows[r][j]) : r \in DOMAIN rows}
Has(cell, c) == \E k \in DOMAIN cell.lots : cell.lots[k].c = c
HasNZ(cell, c) == \E k \in DOMAIN cell.lots : cell.lots[k].c = c /\ cell.lots[k].n[1] # 0
(* census: currency -> number of rows in which it occurs (with a non-zero number / at all) *)
CensusNZ(rows, j, c) == Cardinality({r \in DOMAIN rows : HasNZ(rows[r][j], c)})
CensusAll(rows, j, c) == Cardinality({r \in DOMAIN rows : Has(rows[r][j], c)})
CurNZ(rows, j) == {c \in CurAll(rows, j) : CensusNZ(rows, j, c) > 0}

RECURSIVE SumLots(_, _, _)
SumLots(lots, c, k) ==
    IF k = 0 THEN Zero
    ELSE LET s == SumLots(lots, c, k - 1) IN IF lots[k].c = c THEN RAdd(s, lots[k].n) ELSE s
(* units of currency c in a value, summed over lots; a NULL cell and an empty inventory hold nothing *)
Units(cell, c) == SumLots(cell.lots, c, Len(cell.lots))

(* what a new cell may hold: the units (quantised when a formatter knows the currency); a quantity of zero
   may be reported as NULL or as zero *)
AcceptCells(cell, c, fmt, q) ==
    LET x == Units(cell, c)
        T == IF fmt = 1 /\ QOf(q, c) >= 0 THEN Nearest(x, QOf(q, c)) ELSE {x}
    IN T \cup (IF Zero \in T THEN {<<>>} ELSE {})

(* cs = the currencies of the new columns of input column j, in output order *)
NoDup(cs) == \A a, b \in DOMAIN cs : a # b => cs[a] # cs[b]
NoDropOK(rows, j, cs) == CurNZ(rows, j) \subseteq Range(cs)
NoInventOK(rows, j, cs) == Range(cs) \subseteq CurAll(rows, j) /\ NoDup(cs)
FreqOK(rows, j, cs) ==
    \/ \A a \in 1..(Len(cs) - 1) : CensusNZ(rows, j, cs[a]) >= CensusNZ(rows, j, cs[a + 1])
    \/ \A a \in 1..(Len(cs) - 1) : CensusAll(rows, j, cs[a]) >= CensusAll(rows, j, cs[a + 1])
OrderOK(rows, j, cs) == NoInventOK(rows, j, cs) /\ NoDropOK(rows, j, cs) /\ FreqOK(rows, j, cs)

(* Layout: which output columns belong to which input column.  A plain column owns exactly one output column,
   an amount-like column a run of Decimal columns named `name (CUR)` for distinct currencies occurring in it.
   Column NAMES need not be distinct (BQL lets two targets carry the same alias, `SELECT units(position) AS amt,
   cost(position) AS amt`): ownership is positional, and where equal names make the boundary between two runs
   ambiguous the statement is read existentially -- an output is acceptable iff SOME layout satisfies every
   clause (Layouts).  Layout is the greedy one (longest run), used to name the failing clauses in reports; it is
   the only candidate when the names are distinct. *)
GroupLen(cols, rows, j, ocols, o) ==
    LET A == CurAll(rows, j)
        names == {NewName(cols[j].name, c) : c \in A}
        bound == Min(Cardinality(A), Max(0, Len(ocols) - o))
        good(i) == ocols[o + i].name \in names /\ ocols[o + i].ty = "Decimal"
    IN CHOOSE k \in 0..bound : (\A i \in 1..k : good(i)) /\ (k = bound \/ ~good(k + 1))

Layout(cols, rows, ocols) ==
    LET off[j \in 0..Len(cols)] ==
            IF j = 0 THEN 0
            ELSE off[j - 1] + (IF IsAmt(cols[j]) THEN GroupLen(cols, rows, j, ocols, off[j - 1]) ELSE 1)
    IN off

(* the run lengths input column j may own from offset o on: a plain column one output column of its own name and
   type; an amount-like column any prefix of well-named Decimal columns with pairwise different names *)
GroupLens(cols, rows, j, ocols, o) ==
    IF ~IsAmt(cols[j])
    THEN IF o + 1 <= Len(ocols) /\ ocols[o + 1].name = cols[j].name /\ ocols[o + 1].ty = cols[j].ty THEN {1} ELSE {}
    ELSE LET A == CurAll(rows, j)
             names == {NewName(cols[j].name, c) : c \in A}
             bound == Min(Cardinality(A), Max(0, Len(ocols) - o))
             good(i) == /\ ocols[o + i].name \in names /\ ocols[o + i].ty = "Decimal"
                        /\ \A h \in 1..(i - 1) : ocols[o + h].name # ocols[o + i].name
         IN {k \in 0..bound : \A i \in 1..k : good(i)}

(* s[j + 1] = index of the last output column owned by input column j (s[1] = 0) *)
RECURSIVE OffSeqs(_, _, _, _)
OffSeqs(cols, rows, ocols, j) ==
    IF j = 0 THEN {<<0>>}
    ELSE UNION {{Append(s, s[j] + k) : k \in GroupLens(cols, rows, j, ocols, s[j])} :
                s \in OffSeqs(cols, rows, ocols, j - 1)}
Layouts(cols, rows, ocols) ==
    LET n == Len(cols) IN
    {[j \in 0..n |-> s[j + 1]] : s \in {t \in OffSeqs(cols, rows, ocols, n) : t[n + 1] = Len(ocols)}}

GroupCurs(cols, rows, j, ocols, off) ==
    [i \in 1..(off[j] - off[j - 1]) |->
        CHOOSE c \in CurAll(rows, j) : NewName(cols[j].name, c) = ocols[off[j - 1] + i].name]

ShapeOK(rows, ocols, orows) ==
    /\ Len(orows) = Len(rows)
    /\ \A r \in DOMAIN orows : Len(orows[r]) = Len(ocols)

(* the clauses, given the layout off (off[j] = index of the last output column owned by input column j) *)
PlainDescOK(cols, ocols, off) ==
    \A j \in DOMAIN cols : ~IsAmt(cols[j]) =>
        ocols[off[j]].name = cols[j].name /\ ocols[off[j]].ty = cols[j].ty
PlainIdentityOK(cols, rows, orows, off) ==
    \A j \in DOMAIN cols : ~IsAmt(cols[j]) =>
        \A r \in DOMAIN rows : orows[r][off[j]].tok = rows[r][j].tok
NoDropAll(cols, rows, ocols, off) ==
    \A j \in DOMAIN cols : IsAmt(cols[j]) => NoDropOK(rows, j, GroupCurs(cols, rows, j, ocols, off))
NoInventAll(cols, rows, ocols, off) ==
    \A j \in DOMAIN cols : IsAmt(cols[j]) => NoInventOK(rows, j, GroupCurs(cols, rows, j, ocols, off))
FreqAll(cols, rows, ocols, off) ==
    \A j \in DOMAIN cols : IsAmt(cols[j]) => FreqOK(rows, j, GroupCurs(cols, rows, j, ocols, off))
CellsAll(cols, rows, fmt, q, ocols, orows, off) ==
    \A j \in DOMAIN cols : IsAmt(cols[j]) =>
        LET cs == GroupCurs(cols, rows, j, ocols, off) IN
        \A r \in DOMAIN rows : \A i \in DOMAIN cs :
            orows[r][off[j - 1] + i].num \in AcceptCells(rows[r][j], cs[i], fmt, q)

(* THE PROPERTY: (ocols, orows) is an acceptable numberification of (cols, rows) under formatter (fmt, q) *)
AcceptsWith(cols, rows, fmt, q, ocols, orows, off) ==
    /\ off[Len(cols)] = Len(ocols)
    /\ PlainDescOK(cols, ocols, off)
    /\ PlainIdentityOK(cols, rows, orows, off)
    /\ NoInventAll(cols, rows, ocols, off)
    /\ NoDropAll(cols, rows, ocols, off)
    /\ FreqAll(cols, rows, ocols, off)
    /\ CellsAll(cols, rows, fmt, q, ocols, orows, off)
Accepts(cols, rows, fmt, q, ocols, orows) ==
    /\ ShapeOK(rows, ocols, orows)
    /\ \E off \in Layouts(cols, rows, ocols) : AcceptsWith(cols, rows, fmt, q, ocols, orows, off)

(* names of the clauses that fail, for reports *)
FailedClauses(cols, rows, fmt, q, ocols, orows) ==
    IF ~ShapeOK(rows, ocols, orows) THEN <<"shape">>
    ELSE LET off == Layout(cols, rows, ocols) IN
         IF off[Len(cols)] # Len(ocols) THEN <<"layout">>
         ELSE SelectSeq(<<"plain-desc", "plain-identity", "no-invented-column", "no-currency-dropped",
                          "frequency-order", "cells">>,
                        LAMBDA n : CASE n = "plain-desc" -> ~PlainDescOK(cols, ocols, off)
                                     [] n = "plain-identity" -> ~PlainIdentityOK(cols, rows, orows, off)
                                     [] n = "no-invented-column" -> ~NoInventAll(cols, rows, ocols, off)
                                     [] n = "no-currency-dropped" -> ~NoDropAll(cols, rows, ocols, off)
                                     [] n = "frequency-order" -> ~FreqAll(cols, rows, ocols, off)
                                     [] n = "cells" -> ~(NoInventAll(cols, rows, ocols, off)
                                                         /\ CellsAll(cols, rows, fmt, q, ocols, orows, off)))

(* The same statement in generative form (used to emit expectations for the spec -> code replay) *)
AcceptOrders(rows, j) ==
    LET A == CurAll(rows, j) IN
    {cs \in UNION {[1..k -> A] : k \in 0..Cardinality(A)} : OrderOK(rows, j, cs)}
GroupAlts(cols, rows, j) ==
    IF IsAmt(cols[j])
    THEN {[i \in 1..Len(cs) |-> <<NewName(cols[j].name, cs[i]), "Decimal", j, cs[i]>>] : cs \in AcceptOrders(rows, j)}
    ELSE {<< <<cols[j].name, cols[j].ty, j, "">> >>}
RECURSIVE AcceptDescs(_, _, _)
AcceptDescs(cols, rows, j) ==
    IF j = 0 THEN {<<>>}
    ELSE {d \o g : d \in AcceptDescs(cols, rows, j - 1), g \in GroupAlts(cols, rows, j)}
ExpectCells(cols, rows, fmt, q) ==
    [r \in DOMAIN rows |-> [j \in DOMAIN cols |->
        IF IsAmt(cols[j]) THEN {<<c, AcceptCells(rows[r][j], c, fmt, q)>> : c \in CurAll(rows, j)} ELSE {}]]

-----------------------------------------------------------------------------
(* Part 2: the mechanism (numberify_results and the convert_col_* / *Converter classes) *)
CONSTANTS
    Shapes,       \* the input space: sequence of [cols |-> Seq(column), cells |-> Seq(set of input cells), max |-> rows]
    FmtChoices,   \* subset of {0, 1}: dformat absent / given
    DCtx,         \* the display context the formatter is built from: Seq(<<currency, most common digits, maximum digits>>)
    Prec,         \* the precision setting the formatter is built for: "most_common" (the default of build()) | "maximum"
    CurSeq,       \* all currencies, in ascending string order (the tie-break of sorted())
    InvNull,      \* "skip" (the code: None skipped in census and converter) | "raise" (as shipped before fix e9990d2)
    Mut           \* "none" | "cap2" | "asc" | "poscost" | "noquant" | "lot1" | "byname" | "ctxdefault"  (broken
                  \* mechanisms, non-vacuity)

(* the formatter's precisions: what the property (Part 1) is stated over *)
Q == FormatterQ(DCtx, Prec)
(* the mechanism: DisplayFormatter.quantize(number, currency) forwards ITS precision setting to
   DisplayContext.quantize(number, currency, precision), whose own default is "most_common".  The broken mechanism
   "ctxdefault" goes to the context without the setting: indistinguishable for a formatter built with the defaults,
   and for every currency whose most common and maximum numbers of digits agree. *)
QMech == FormatterQ(DCtx, IF Mut = "ctxdefault" THEN "most_common" ELSE Prec)

VARIABLES
    gen,          \* the shape of the input space the caller draws the table from: [id |-> index in Shapes, max |-> rows]
                  \* (the row bound is copied into the state: TLC re-evaluates an overridden constant at every use)
    tbl, fmt,     \* the arguments: tbl = [cols |-> Seq(column), rows |-> Seq(Seq(input cell))]
    pc,           \* "input" (the caller builds the table) | "census" | "convert" | "done"
    ci, ri,       \* loop indices: column, row
    cmap,         \* currency_map of the column being examined
    convs,        \* converters built so far
    orows,        \* rows converted so far
    err           \* "none" | exception name
vars == <<gen, tbl, fmt, pc, ci, ri, cmap, convs, orows, err>>

NRows == Len(tbl.rows)
NCols == Len(tbl.cols)
CurIdx(c) == CHOOSE i \in DOMAIN CurSeq : CurSeq[i] = c
EmptyMap == [c \in Range(CurSeq) |-> 0]

Init ==
    /\ gen \in {[id |-> i, max |-> Shapes[i].max] : i \in DOMAIN Shapes}
    /\ tbl = [cols |-> Shapes[gen.id].cols, rows |-> <<>>] /\ fmt \in FmtChoices
    /\ pc = "input" /\ ci = 1 /\ ri = 1 /\ cmap = EmptyMap /\ convs = <<>> /\ orows = <<>> /\ err = "none"

(* the caller: any table of the shape, row by row.  A plain cell of column j in row r is the value number 10 j + r,
   so that the plain cells identify the row and the column. *)
PlainCell(t) == [tok |-> t, isnull |-> 0, lots |-> <<>>]
CellChoices(sh, r, j) == IF IsAmt(sh.cols[j]) THEN sh.cells[j] ELSE {PlainCell(10 * j + r)}
RECURSIVE RowChoices(_, _, _)
RowChoices(sh, r, j) ==
    IF j = 0 THEN {<<>>} ELSE {Append(p, c) : p \in RowChoices(sh, r, j - 1), c \in CellChoices(sh, r, j)}
AddRow ==
    /\ pc = "input" /\ NRows < gen.max
    /\ \E row \in RowChoices(Shapes[gen.id], NRows + 1, NCols) : tbl' = [tbl EXCEPT !.rows = Append(@, row)]
    /\ UNCHANGED <<gen, fmt, pc, ci, ri, cmap, convs, orows, err>>
(* numberify_results(columns, drows, dformat) is called *)
Call ==
    /\ pc = "input" /\ pc' = "census"
    /\ UNCHANGED <<gen, tbl, fmt, ci, ri, cmap, convs, orows, err>>

(* for index, column in enumerate(columns): the converters of a column read the cell at ITS position.  The broken
   mechanism "byname" finds the position by looking the description up (the first column with that name and
   datatype): indistinguishable unless two columns carry the same name and datatype. *)
ColIdx(j) ==
    IF Mut = "byname" THEN CHOOSE i \in 1..j : tbl.cols[i] = tbl.cols[j] /\ \A h \in 1..(i - 1) : tbl.cols[h] # tbl.cols[j]
    ELSE j
(* a column of any other datatype gets the IdentityConverter *)
IdentityColumn ==
    /\ pc = "census" /\ ci <= NCols /\ ~IsAmt(tbl.cols[ci])
    /\ convs' = Append(convs, [kind |-> "Identity", name |-> tbl.cols[ci].name, ty |-> tbl.cols[ci].ty,
                               idx |-> ColIdx(ci), cur |-> ""])
    /\ ci' = ci + 1
    /\ UNCHANGED <<gen, tbl, fmt, pc, ri, cmap, orows, err>>

(* the currencies one row contributes to currency_map *)
FirstTwo(S) == {c \in S : Cardinality({d \in S : CurIdx(d) < CurIdx(c)}) < 2}
Counted(cell, ty) ==
    CASE ty = "Amount" ->       \* `if vamount and vamount.currency` -- bool(Amount) is number != 0
            IF cell.isnull = 0 /\ cell.lots[1].n[1] # 0 THEN {cell.lots[1].c} ELSE {}
      [] ty = "Position" ->     \* `if pos and pos.units.currency` -- a Position is always true
            IF cell.isnull = 0 THEN {cell.lots[1].c} ELSE {}
      [] ty = "Inventory" ->    \* `for currency in inv.currencies()`
            IF Mut = "cap2" THEN FirstTwo(CurOfCell(cell)) ELSE CurOfCell(cell)

(* convert_col_X: for drow in drows *)
CensusRow ==
    /\ pc = "census" /\ ci <= NCols /\ IsAmt(tbl.cols[ci]) /\ ri <= NRows
    /\ LET cell == tbl.rows[ri][ColIdx(ci)] ty == tbl.cols[ci].ty IN
       IF ty = "Inventory" /\ cell.isnull = 1 /\ InvNull = "raise"
       THEN /\ err' = "AttributeError" /\ pc' = "done"        \* None.currencies()
            /\ UNCHANGED <<gen, tbl, fmt, ci, ri, cmap, convs, orows>>
       ELSE /\ cmap' = [c \in DOMAIN cmap |-> IF c \in Counted(cell, ty) THEN cmap[c] + 1 ELSE cmap[c]]
            /\ ri' = ri + 1
            /\ UNCHANGED <<gen, tbl, fmt, pc, ci, convs, orows, err>>

(* sorted(currency_map.items(), key=lambda item: (item[1], item[0]), reverse=True) *)
Before(c, d) == cmap[c] > cmap[d] \/ (cmap[c] = cmap[d] /\ CurIdx(c) > CurIdx(d))
SortedCurs ==
    LET S == {c \in DOMAIN cmap : cmap[c] > 0}
        rank(c) == 1 + Cardinality({d \in S : IF Mut = "asc" THEN Before(c, d) ELSE Before(d, c)})
    IN [i \in 1..Cardinality(S) |-> CHOOSE c \in S : rank(c) = i]
BuildConverters ==
    /\ pc = "census" /\ ci <= NCols /\ IsAmt(tbl.cols[ci]) /\ ri > NRows
    /\ LET cs == SortedCurs IN
       convs' = convs \o [i \in 1..Len(cs) |->
                    [kind |-> tbl.cols[ci].ty, name |-> NewName(tbl.cols[ci].name, cs[i]), ty |-> "Decimal",
                     idx |-> ColIdx(ci), cur |-> cs[i]]]
    /\ cmap' = EmptyMap /\ ci' = ci + 1 /\ ri' = 1
    /\ UNCHANGED <<gen, tbl, fmt, pc, orows, err>>

StartConversion ==
    /\ pc = "census" /\ ci > NCols
    /\ pc' = "convert" /\ ri' = 1
    /\ UNCHANGED <<gen, tbl, fmt, ci, cmap, convs, orows, err>>

Quant(x, c) == IF fmt = 1 /\ QOf(QMech, c) >= 0 /\ Mut # "noquant" THEN HalfEven(x, QOf(QMech, c)) ELSE x
Null == <<>>
Apply(cv, row) ==
    LET cell == row[cv.idx] IN
    CASE cv.kind = "Identity" -> [tok |-> cell.tok, num |-> Null]
      [] cv.kind = "Amount" ->
            [tok |-> -1, num |-> IF cell.isnull = 0 /\ cell.lots[1].n[1] # 0 /\ cell.lots[1].c = cv.cur
                                 THEN Quant(cell.lots[1].n, cv.cur) ELSE Null]
      [] cv.kind = "Position" ->
            [tok |-> -1, num |-> IF cell.isnull = 0 /\ cell.lots[1].c = cv.cur
                                 THEN Quant(IF Mut = "poscost" /\ cell.lots[1].k # <<>> THEN cell.lots[1].k
                                            ELSE cell.lots[1].n, cv.cur)
                                 ELSE Null]
      [] cv.kind = "Inventory" ->
            \* number = inv.get_currency_units(cur).number; quantize if number and dformat; return number or None
            LET number == IF Mut = "lot1"
                          THEN (IF Has(cell, cv.cur)
                                THEN cell.lots[CHOOSE k \in DOMAIN cell.lots : cell.lots[k].c = cv.cur /\
                                                  \A m \in DOMAIN cell.lots : cell.lots[m].c = cv.cur => k <= m].n
                                ELSE Zero)
                          ELSE Units(cell, cv.cur)
                qn == IF number # Zero THEN Quant(number, cv.cur) ELSE number
            IN [tok |-> -1, num |-> IF qn = Zero THEN Null ELSE qn]

(* for drow in drows: orow = [converter(drow, dformat) for converter in converters] *)
ConvertRow ==
    /\ pc = "convert" /\ ri <= NRows
    /\ orows' = Append(orows, [k \in 1..Len(convs) |-> Apply(convs[k], tbl.rows[ri])])
    /\ ri' = ri + 1
    /\ UNCHANGED <<gen, tbl, fmt, pc, ci, cmap, convs, err>>

Return ==
    /\ pc = "convert" /\ ri > NRows
    /\ pc' = "done"
    /\ UNCHANGED <<gen, tbl, fmt, ci, ri, cmap, convs, orows, err>>

Next == AddRow \/ Call \/ IdentityColumn \/ CensusRow \/ BuildConverters \/ StartConversion \/ ConvertRow \/ Return

OCols == [k \in 1..Len(convs) |-> [name |-> convs[k].name, ty |-> convs[k].ty]]
Returned == pc = "done" /\ err = "none"

-----------------------------------------------------------------------------
(* What TLC proves about the mechanism.  The sub-properties are stated directly on (input, output), by column
   NAME, independently of the layout analysis used in Accepts -- hence for the amount-like columns whose name no
   other column carries (AmtCols); equally named columns are covered by Correct / CorrectGen, which are positional. *)
ColsFor(j, c) == {k \in DOMAIN OCols : OCols[k].name = NewName(tbl.cols[j].name, c)}
UniqueName(j) == \A i \in DOMAIN tbl.cols : i # j => tbl.cols[i].name # tbl.cols[j].name
AmtColsAll == {j \in DOMAIN tbl.cols : IsAmt(tbl.cols[j])}
AmtCols == {j \in AmtColsAll : UniqueName(j)}
RVal(num) == IF num = <<>> THEN Zero ELSE num

\* numberify is total on the quantified domain (NULL cells and empty inventories included)
Total == pc = "done" => err = "none"
\* the mechanism's result is an acceptable numberification
Correct == Returned => Accepts(tbl.cols, tbl.rows, fmt, Q, OCols, orows)
\* ... and by the generative form of the statement, used exactly as the replay driver uses what Gen_Numberify emits:
\* the description is one of the acceptable ones and every cell is a member of its acceptable set
CorrectGen ==
    Returned =>
        \E d \in AcceptDescs(tbl.cols, tbl.rows, NCols) :
            /\ Len(d) = Len(OCols)
            /\ \A k \in DOMAIN d : d[k][1] = OCols[k].name /\ d[k][2] = OCols[k].ty
            /\ LET exp == ExpectCells(tbl.cols, tbl.rows, fmt, Q) IN
               \A r \in DOMAIN tbl.rows : \A k \in DOMAIN d :
                   IF d[k][4] = "" THEN orows[r][k].tok = tbl.rows[r][d[k][3]].tok
                   ELSE \E pr \in exp[r][d[k][3]] : pr[1] = d[k][4] /\ orows[r][k].num \in pr[2]
\* no currency occurring with a non-zero amount is dropped (and none gets two columns)
NoCurrencyDropped ==
    Returned => \A j \in AmtCols : \A c \in CurNZ(tbl.rows, j) : Cardinality(ColsFor(j, c)) = 1
\* for every row and currency the new cell is the number of units summed over lots (exactly without a formatter,
\* a nearest multiple of the display precision with one); NULL counts as zero
SumPreserved ==
    Returned => \A j \in AmtCols : \A c \in CurAll(tbl.rows, j) : \A k \in ColsFor(j, c) : \A r \in DOMAIN tbl.rows :
        LET x == Units(tbl.rows[r][j], c)  v == RVal(orows[r][k].num) IN
        IF fmt = 1 /\ QOf(Q, c) >= 0 THEN v \in Nearest(x, QOf(Q, c)) ELSE v = x
\* a quantity is never invented: a currency absent from the row yields NULL or zero, every output column is
\* either a plain input column or `name (CUR)` for a currency of that input column
NothingInvented ==
    Returned =>
        /\ \A j \in AmtCols : \A c \in CurAll(tbl.rows, j) : \A k \in ColsFor(j, c) : \A r \in DOMAIN tbl.rows :
              ~Has(tbl.rows[r][j], c) => RVal(orows[r][k].num) = Zero
        /\ \A k \in DOMAIN OCols :
              \/ \E j \in DOMAIN tbl.cols : ~IsAmt(tbl.cols[j]) /\ OCols[k] = tbl.cols[j]
              \/ \E j \in AmtColsAll : \E c \in CurAll(tbl.rows, j) : k \in ColsFor(j, c) /\ OCols[k].ty = "Decimal"
\* plain columns are copied, in their relative order, between the groups of new columns
PlainIdentity ==
    Returned => \A j \in DOMAIN tbl.cols : ~IsAmt(tbl.cols[j]) =>
        \E k \in DOMAIN OCols :
            /\ OCols[k] = tbl.cols[j]
            /\ \A r \in DOMAIN tbl.rows : orows[r][k].tok = tbl.rows[r][j].tok
            /\ \A j2 \in AmtCols : j2 < j =>
                  \A c \in CurAll(tbl.rows, j2) : \A k2 \in ColsFor(j2, c) : k2 < k
\* row count and row order (plain cells identify the rows)
RowsPreserved == Returned => Len(orows) = NRows /\ \A r \in DOMAIN orows : Len(orows[r]) = Len(OCols)
\* new columns in decreasing frequency
FreqOrdered ==
    Returned => \A j \in AmtCols : \A c, d \in CurAll(tbl.rows, j) : \A k \in ColsFor(j, c) : \A m \in ColsFor(j, d) :
        (CensusNZ(tbl.rows, j, c) > CensusNZ(tbl.rows, j, d) /\ CensusAll(tbl.rows, j, c) > CensusAll(tbl.rows, j, d)) => k < m
\* internal consistency of the loop indices
TypeOK ==
    /\ pc \in {"input", "census", "convert", "done"} /\ ci \in 1..(NCols + 1) /\ ri \in 1..(NRows + 1)
    /\ Len(orows) <= NRows /\ fmt \in {0, 1}
=============================================================================
