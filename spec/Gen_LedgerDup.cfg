\* every ledger of <= 3 directives in which an account is opened / closed or a currency declared by several directives,
\* over the 11-letter alphabet of repeated open / close / commodity directives (2 transactions + 9 such directives)
CONSTANTS
  Alpha <- DupGenAlpha
  MaxLen = 3
  Keys <- GenKeys
  Mech = "ok"
  MaxStmts = 1
  QualOpts <- QNone
INIT GInit
NEXT GNext
INVARIANT EmitTies
CHECK_DEADLOCK FALSE
