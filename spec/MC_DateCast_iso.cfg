\* dates of 1900-01-01 .. 2100-12-31, every 997 (non-vacuity: a conversion reading ISO 8601 calendar dates must violate CastInv)
CONSTANTS
  Lo = 693596
  Hi = 767009
  Step = 997
  Mode = "iso"
INIT Init
NEXT Next
INVARIANT CastInv
CHECK_DEADLOCK FALSE
