----------------------------- MODULE Trace_Shell -----------------------------
(* Code -> spec: sessions recorded from real BQLShell objects (one ndjson event per command line, logged when
   onecmd returns) are replayed through Shell's own actions.  A "begin" event starts a new session (fresh shell
   over a generated ledger whose query directives it lists).  For every line the specification classifies the TEXT
   of the line itself (Classify / Words on the recorded string), takes the action, and compares what it says must
   be observed -- the nine settings, the error class, the output class and the exact text of `.set` echoes -- with
   what was recorded.  What a statement prints is RenderWith(settings, Denote(text)): for those lines TLC emits an
   OBLIGATION (which text, which settings; or: the API must reject this text) that the driver discharges against
   the API and the recorded output.  A line the specification does not explain is reported (PrintT of a JSON
   verdict); the session goes on unless the settings themselves have diverged. *)
EXTENDS Shell, Json, IOUtils

TraceLog == ndJsonDeserialize(IOEnv.TRACE_FILE)
TFormats == {"text", "csv"}
NoQueries == <<>>

VARIABLES l, dead, nbad
tvars == <<vars, l, dead, nbad>>

OutMatches(e) ==
    CASE lastOut'.k = "none" -> e.k = "none"
      [] lastOut'.k \in {"show", "echo"} -> e.k = "kv" /\ e.lines = lastOut'.lines
      [] lastOut'.k = "render" -> e.k # "none"                    \* the exact text is the obligation
      [] lastOut'.k = "tables" -> e.k = "tables"
      [] lastOut'.k = "describe" -> e.k \in {"describe", "none"}
      [] lastOut'.k = "explain" -> e.k = "explain"
      [] lastOut'.k = "runlist" -> e.k \in {"names", "none"}
      [] OTHER -> TRUE
Matches(e) == Vec(settings') = e.s /\ lastErr' = e.err /\ OutMatches(e)

TInit == Init /\ l = 1 /\ dead = FALSE /\ nbad = 0

Begin(e) ==
    /\ started' = TRUE
    /\ boot' = [via |-> "api", f |-> e.f, m |-> e.m, o |-> FALSE, q |-> FALSE]
    /\ settings' = [Default EXCEPT !.format = S(e.f), !.numberify = B(e.m)]
    /\ queries' = e.queries
    /\ line' = ""
    /\ lastOut' = [k |-> "none", a |-> "", lines |-> <<>>, dest |-> "outfile"]
    /\ lastErr' = "none"

TNext ==
    /\ l <= Len(TraceLog)
    /\ l' = l + 1
    /\ LET e == TraceLog[l] IN
       IF e.op = "begin" THEN Begin(e) /\ dead' = FALSE /\ UNCHANGED nbad
       ELSE IF dead THEN UNCHANGED <<vars, dead, nbad>>
       ELSE /\ OneCmd(e.line, LAMBDA t : e.err # "raise")
            /\ IF Matches(e)
               THEN /\ UNCHANGED <<dead, nbad>>
                    /\ (lastOut'.k = "render") =>
                          PrintT(ToJson([ob |-> "render", line |-> l, text |-> lastOut'.a, s |-> Vec(settings')]))
                    /\ (lastErr' = "raise") =>
                          PrintT(ToJson([ob |-> "reject", line |-> l, text |-> lastOut'.a, s |-> Vec(settings')]))
               ELSE /\ PrintT(ToJson([verdict |-> "rejected", line |-> l, tid |-> e.tid, cmd |-> e.line,
                                      exp_s |-> Vec(settings'), exp_err |-> lastErr', exp_k |-> lastOut'.k,
                                      exp_a |-> lastOut'.a, exp_lines |-> lastOut'.lines]))
                    /\ nbad' = nbad + 1
                    /\ dead' = (Vec(settings') # e.s)

TSpec == TInit /\ [][TNext]_tvars

TraceConsumed == TLCGet("stats").diameter - 1 = Len(TraceLog)
=============================================================================
