\* exhaustive (thorough): every ledger of <= 3 postings from the pool of 14, 198 shapes;
\* every directive list of <= 4 of 15 directives, 20 PRINT filters (6 of them over tags / links)
CONSTANTS
  Headers <- HeadersDef
  Pool <- Pool14
  MaxPostings = 3
  Shapes <- ShapesDef
  DirPool <- DirPoolAll
  MaxDirs = 4
  PrintShapes <- PrintShapesDef
  KnownStrings <- KnownStringsDef
  KnownPats <- KnownPatsDef
  Variant = "shipped"
INIT Init
NEXT Next
INVARIANTS DenoteIsMeaning WellFormed
CHECK_DEADLOCK FALSE
