CONSTANTS
  NCursors = 2
  TableNames <- TraceNames
  TableValues = 0
  Queries = 0
  FetchSizes = 0
  Variant = "shipped"
INIT TInit
NEXT TNext
INVARIANTS PrefixInv RowNumberInv ShapeInv
POSTCONDITION Consumed
CHECK_DEADLOCK FALSE
