CONSTANTS
  NCursors = 2
  Sch <- TraceSch
  Table <- TraceTable
  Queries = 0
  FetchSizes = 0
INIT TInit
NEXT TNext
INVARIANTS PrefixInv RowNumberInv ShapeInv
POSTCONDITION Consumed
CHECK_DEADLOCK FALSE
