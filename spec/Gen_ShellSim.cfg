\* simulated histories of 12 commands
CONSTANTS
  Lines <- LinesExtra
  LedgerQueries <- QFixed
  BadStmts <- BadFixed
  Formats <- FormatsShipped
  NonFieldAttrs <- AttrNames
  NameLookup = "fields"
  HonourQuiet = TRUE
  MainQuery = "BALANCES"
  LedgerHasErrors = TRUE
  Depth = 12
  Boots <- BootsAll
INIT GInit
NEXT GNext
INVARIANT Emit
CHECK_DEADLOCK FALSE
