CONSTANTS
  MaxDepth = 3
  EmitMode = "typed"
INIT Init
NEXT Next
INVARIANTS TypeSound StrictNull DivModLaw Emit
CHECK_DEADLOCK FALSE
