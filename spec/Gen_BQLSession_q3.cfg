CONSTANTS
  Stmts <- Stmts3
  StmtParams <- Params3
  ManyPairs <- Pairs1
  Data <- DataA
  NumberMode = "conforming"
  MaxCalls = 3
  GenTextIdx <- Idx2
  Depth = 3
INIT HInit
NEXT HNext
INVARIANT Emit
CHECK_DEADLOCK FALSE
