\* non-vacuity: the converters find their column by looking the description up (first column of that name and
\* datatype) instead of by position.  TLC must violate Correct on two equally named Amount columns.
CONSTANTS
  Space = "dup"
  Shapes <- ShapesOf
  FmtChoices <- Fmt0
  DCtx <- DCAB
  Prec = "most_common"
  CurSeq <- CS3
  InvNull = "skip"
  Mut = "byname"
INIT Init
NEXT Next
INVARIANTS Correct
CHECK_DEADLOCK FALSE
