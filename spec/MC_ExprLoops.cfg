INIT Init
NEXT Next
INVARIANTS AndLaw OrLaw NotLaw IsNullLaw CoalesceLaw
CHECK_DEADLOCK FALSE
