\* non-vacuity: the open / close map keeps the directive listed first whatever its date, where the chronologically
\* earliest one stands.  TLC must violate MechEqDecl (table of accounts).
CONSTANTS
  Alpha <- DupAlpha
  MaxLen = 2
  Keys <- SmallKeys
  Mech = "listedopen"
  MaxStmts = 1
  QualOpts <- QNone
INIT Init
NEXT Next
INVARIANTS MechEqDecl
CHECK_DEADLOCK FALSE
