CONSTANTS
  NCursors = 2
  Queries <- QGen
  FetchSizes <- Sizes13
  ArraySizes <- AS2
  RowCountFrom = "result"
  IterMayConsume = FALSE
  None = None
  Depth = 3
INIT GInit
NEXT GNext
INVARIANT Emit
CHECK_DEADLOCK FALSE
