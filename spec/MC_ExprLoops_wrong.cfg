INIT Init
NEXT Next
INVARIANTS AndWrong
CHECK_DEADLOCK FALSE
