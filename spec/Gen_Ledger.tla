----------------------------- MODULE Gen_Ledger -----------------------------
(* Case generator for the spec->code replay of Ledger: every state is one well-formed ledger over the generator
   alphabet (built by appending one directive per step); one JSON line per ledger with the rows the specification
   says the ten tables must show (every modelled column, every lookup for every key of Keys). *)
EXTENDS MC_Ledger, IOUtils

(* the output is consumed in portions: GEN_PART = p in 0..7 keeps the ledgers whose first directive has index
   = p modulo 8; GEN_PART = -1 keeps all *)
Part == CHOOSE p \in -1..7 : ToString(p) = IOEnv.GEN_PART

GInit ==
    /\ lx = <<>> /\ tab = "postings" /\ ei = 0 /\ pj = 0
    /\ ctx = [rowid |-> 0, entry |-> 0, posting |-> 0]
    /\ emitted = <<>> /\ dir = <<>> /\ done = FALSE /\ conn = Conn0
GNext ==
    /\ Len(lx) < MaxLen
    /\ \E letter \in 1..Len(Alpha) :
          /\ (Len(lx) = 0 /\ Part >= 0) => letter % 8 = Part
          /\ WellFormed(LedgerOf(Append(lx, letter)))
          /\ lx' = Append(lx, letter)
    /\ UNCHANGED <<tab, ei, pj, ctx, emitted, dir, done, conn>>

(* the statements executed on the connection BEFORE the tables are read: one of 12 histories (dates taken from the
   ledger) for every second ledger, none for the others -- chosen by the ledger's letters *)
RECURSIVE SumSeq(_)
SumSeq(sq) == IF Len(sq) = 0 THEN 0 ELSE Head(sq) + SumSeq(Tail(sq))
HistOf(ix, M) ==
    LET mid == IF Len(M) = 0 THEN D0 ELSE M[(Len(M) + 1) \div 2].date
        end == LastDate(M) + 1
        clr == Q(NULL, NULL, TRUE)
        pool == << <<St("agg", clr)>>,
                   <<St("count", Q(Some(mid), NULL, FALSE))>>,
                   <<St("rows", Q(NULL, Some(end - 1), FALSE))>>,
                   <<St("agg", Q(Some(mid), Some(end), TRUE))>>,
                   <<St("count", Q(NULL, Some(0), FALSE)), St("agg", clr)>>,
                   <<St("error", clr)>>,
                   <<St("balances", clr)>>,
                   <<St("tableref", NoQual), St("count", clr)>>,
                   <<St("partial", clr)>>,
                   <<St("entries", NoQual), St("rows", clr), St("default", NoQual)>>,
                   <<St("count", NoQual), St("count", clr), St("count", clr)>>,
                   <<St("rows", Q(Some(mid), Some(0), TRUE)), St("count", Q(NULL, Some(mid), FALSE))>> >>
        h == (SumSeq(ix) + 5 * Len(ix)) % (2 * Len(pool))
    IN  IF h < Len(pool) THEN pool[h + 1] ELSE <<>>
Emit ==
    LET hist == HistOf(lx, L) IN
    /\ IsHistory(hist)
    /\ PrintT(ToJson([lx |-> lx, ledger |-> L, keys |-> Keys, hist |-> hist, rows |-> RowsAfter(hist, L, Keys)]))
(* the alphabet of repeated open / close / commodity directives (Gen_LedgerDup.cfg): the ledgers in which an account is
   opened (closed) or a currency declared by more than one directive -- the others are ledgers of the other runs *)
HasTie(M) ==
    \E i, j \in 1..Len(M) :
        /\ i < j /\ M[i].k = M[j].k
        /\ \/ (M[i].k \in {"open", "close"} /\ M[i].account = M[j].account)
           \/ (M[i].k = "commodity" /\ M[i].currency = M[j].currency)
EmitTies == IF HasTie(L) THEN Emit ELSE TRUE
=============================================================================
