----------------------------- MODULE Gen_Ledger -----------------------------
(* Case generator for the spec->code replay of Ledger: every state is one well-formed ledger over the generator
   alphabet (built by appending one directive per step); one JSON line per ledger with the rows the specification
   says the ten tables must show (every modelled column, every lookup for every key of Keys). *)
EXTENDS MC_Ledger, IOUtils

(* the output is consumed in portions: GEN_PART = p in 0..7 keeps the ledgers whose first directive has index
   = p modulo 8; GEN_PART = -1 keeps all *)
Part == CHOOSE p \in -1..7 : ToString(p) = IOEnv.GEN_PART

GInit ==
    /\ lx = <<>> /\ tab = "postings" /\ ei = 0 /\ pj = 0
    /\ ctx = [rowid |-> 0, entry |-> 0, posting |-> 0]
    /\ emitted = <<>> /\ dir = <<>> /\ done = FALSE
GNext ==
    /\ Len(lx) < MaxLen
    /\ \E letter \in 1..Len(Alpha) :
          /\ (Len(lx) = 0 /\ Part >= 0) => letter % 8 = Part
          /\ WellFormed(LedgerOf(Append(lx, letter)))
          /\ lx' = Append(lx, letter)
    /\ UNCHANGED <<tab, ei, pj, ctx, emitted, dir, done>>
Emit == PrintT(ToJson([lx |-> lx, ledger |-> L, keys |-> Keys, rows |-> Rows(L, Keys)]))
=============================================================================
