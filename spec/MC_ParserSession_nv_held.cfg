CONSTANTS
  Variant = "ok"
  Texts <- TextsSmall
  Conns <- Conns2
  MaxOps = 3
  Mode = "memo"
INIT SInit
NEXT SNext
INVARIANT HeldUnchanged
CHECK_DEADLOCK FALSE
