\* non-vacuity: OPEN ON d CLOSE ON e computed in one pass by a routine of its own (not OPEN, then CLOSE) must be rejected
CONSTANTS
  Headers <- Empty
  Pool <- Empty
  MaxPostings = 0
  Shapes <- Empty
  DirPool <- Empty
  MaxDirs = 0
  PrintShapes <- Empty
  KnownStrings <- NoStrings
  KnownPats <- NoStrings
  Variant = "shipped"
  NConn = 1
  MaxSteps = 1
  Routes = {"typed"}
  Mech = "fused_period"
INIT SInit
NEXT SNext
INVARIANTS Independent
CHECK_DEADLOCK FALSE
