----------------------------- MODULE MC_Cursor -----------------------------
(* Exhaustive model-checking instance of Cursor, *)
EXTENDS Cursor, Json

QSmall == << [n |-> 0, cols |-> <<<<"i", "int">>>>],
             [n |-> 1, cols |-> <<<<"i", "int">>, <<"s", "str">>>>],
             [n |-> 3, cols |-> <<<<"i", "int">>>>],
             [n |-> 4, cols |-> <<<<"i", "int">>, <<"d", "date">>, <<"x", "Decimal">>>>] >>
QGen   == << [n |-> 0, cols |-> <<<<"i", "int">>>>],
             [n |-> 2, cols |-> <<<<"i", "int">>, <<"s", "str">>>>],
             [n |-> 4, cols |-> <<<<"i", "int">>, <<"d", "date">>, <<"x", "Decimal">>>>] >>
QGen2  == << [n |-> 0, cols |-> <<<<"i", "int">>>>],
             [n |-> 3, cols |-> <<<<"i", "int">>, <<"s", "str">>>>] >>
Sizes01235 == {0, 1, 2, 3, 5}
Sizes13 == {1, 3}
AS123 == {1, 2, 3}
AS2 == {2}

(* ---- description protocol: a pure function table, emitted from one state ---- *)
Idx == -9..8
SliceArgs == {None} \cup (-9..9)
DescTable ==
    LET col == Column(<<"i", "int">>) IN
    [index |-> [i \in 1..Cardinality(Idx) |-> <<i - 10, PyIndex(col, i - 10)>>],
     slices |-> { <<a, b, PySlice(col, a, b)>> : a \in SliceArgs, b \in SliceArgs },
     len |-> Len(col)]
\* laws of the sequence protocol, checked by TLC on the table itself
DescLaws ==
    LET col == Column(<<"i", "int">>) IN
    /\ Len(col) = 7
    /\ \A i \in 0..6 : PyIndex(col, i) = col[i + 1] /\ PyIndex(col, i - 7) = col[i + 1]
    /\ PyIndex(col, 7) = "IndexError" /\ PyIndex(col, -8) = "IndexError"
    /\ PySlice(col, None, None) = col
    /\ \A a \in SliceArgs, b \in SliceArgs :
         LET s == PySlice(col, a, b) IN
         /\ Len(s) <= 7
         /\ \A k \in 1..Len(s) : \E j \in 1..7 : s[k] = col[j]
    /\ \A k \in 0..7 : PySlice(col, None, k) \o PySlice(col, k, None) = col
=============================================================================
