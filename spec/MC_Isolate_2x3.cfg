\* C20 (compilation + plain columns + parameters), exhaustive: 2 threads over 3-directive ledgers, every interleaving
\* of the compilation and scan steps, property-conforming mechanism; termination under weak fairness
CONSTANTS
  Threads = {1, 2}
  CompilerScope = "per execution"
  ColumnMemo = "none"
  ParserScope = "per call"
  ScanMemo = "none"
  OperandScope = "per call"
  SubqueryColumns = "per table object"
  ResultScope = "per execute call"
  JobSet = "3rows"
SPECIFICATION FairSpec
INVARIANTS TypeOK SerialInv OwnParameters OwnRow OwnStatement OwnOperands OwnNames OwnResults
PROPERTIES NonInterference NoSharedState JobConstant Termination
CHECK_DEADLOCK FALSE
