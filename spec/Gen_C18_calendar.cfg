\* thorough: boundary dates of the whole range 1900-01-01 .. 2100-12-31
CONSTANTS
  Family = "calendar"
  GenLo = 693596
  GenHi = 767009
  MaxLen = 0
INIT Init
NEXT Next
CHECK_DEADLOCK FALSE
