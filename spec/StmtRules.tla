------------------------------ MODULE StmtRules ------------------------------
(* C05, the static rules that do not depend on the table's rows, for all four statement kinds.

   FROM clause.  SELECT, BALANCES, JOURNAL and PRINT all carry the same FROM clause (an optional filter expression,
   OPEN ON d, CLOSE [ON e], CLEAR).  A statement is accepted exactly when the filter expression holds no aggregate,
   no SELECT (a subquery is a FROM table or the right-hand side of IN, nothing else) and, when both dates are written, OPEN is not after CLOSE (equal dates are fine; CLOSE without a date never
   conflicts).  The compiler is modelled as it is built: BALANCES and JOURNAL are rewritten into a SELECT, every
   statement kind hands its FROM clause to ONE routine that applies the two rules.  Route = "shared" is the shipped
   structure; Route = "printown" lets PRINT compile its clause by itself (no rules) and must be refuted.

   Attribute access.  x.a is accepted exactly when the datatype of x is structured (directly, or through the alias
   table) and a is one of its attributes. *)
EXTENDS Integers, Sequences, TLC, Json

CONSTANT Route                                  \* "shared" | "printown"
Kinds == {"select", "balances", "journal", "print"}
Froms == {"none", "plain", "and", "agg", "aggcmp", "aggdeep", "sub"}     \* the filter expression; agg*: holds an aggregate; sub: holds a SELECT
HasAgg(f) == f \in {"agg", "aggcmp", "aggdeep"}
HasSub(f) == f = "sub"
Opens == 0..3                                   \* 0: no OPEN; 1..3: three dates in ascending order
Closes == -1..3                                 \* 0: no CLOSE; -1: CLOSE without a date
Cases == [kind : Kinds, from : Froms, open : Opens, close : Closes, clear : BOOLEAN]

DatesOK(c) == (c.open > 0 /\ c.close > 0) => c.open <= c.close
Valid(c) == ~HasAgg(c.from) /\ ~HasSub(c.from) /\ DatesOK(c)
Rule(c) == IF HasSub(c.from) THEN "subquery in the FROM expression" ELSE IF HasAgg(c.from) THEN "aggregate in FROM"
           ELSE IF ~DatesOK(c) THEN "OPEN after CLOSE" ELSE ""

AttrValid(structured, known) == structured /\ known

(* ---- the mechanism ---- *)
VARIABLES c, pc, stmt, accepted
vars == <<c, pc, stmt, accepted>>
Init == c \in Cases /\ pc = "rewrite" /\ stmt = "" /\ accepted = FALSE
\* BALANCES and JOURNAL become a SELECT carrying the same FROM clause; SELECT and PRINT stay what they are
Rewrite == /\ pc = "rewrite"
           /\ stmt' = IF c.kind \in {"balances", "journal"} THEN "select" ELSE c.kind
           /\ pc' = "from"
           /\ UNCHANGED <<c, accepted>>
\* the filter expression is compiled as an expression (a SELECT in there is refused) before the two rules are applied
SharedFrom(x) == ~HasSub(x.from) /\ ~HasAgg(x.from) /\ DatesOK(x)
CompileFrom == /\ pc = "from"
               /\ accepted' = IF stmt = "print" /\ Route = "printown" THEN TRUE ELSE SharedFrom(c)
               /\ pc' = "done"
               /\ UNCHANGED <<c, stmt>>
Next == Rewrite \/ CompileFrom
Spec == Init /\ [][Next]_vars

AcceptInv == pc = "done" => (accepted = Valid(c))
Emit == pc = "done" => PrintT(ToJson([kind |-> c.kind, from |-> c.from, open |-> c.open, close |-> c.close, clear |-> c.clear,
                                      ok |-> Valid(c), err |-> Rule(c)]))
=============================================================================
