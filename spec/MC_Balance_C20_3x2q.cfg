\* C20, exhaustive: 3 threads x 2 rows (quick: 3 programs)
CONSTANTS
  Threads = {1, 2, 3}
  CacheMode = "per row context"
  Split = FALSE
  Programs <- Progs20_2rows_q
INIT Init
NEXT Next
INVARIANTS TypeOK SerialInv ConsultedInv
PROPERTIES NonInterference NoSharedState ProgConstant
CHECK_DEADLOCK FALSE
