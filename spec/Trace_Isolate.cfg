\* recorded runs judged against the property-conforming mechanism
CONSTANTS
  Threads = {1, 2, 3, 4}
  CompilerScope = "per execution"
  ColumnMemo = "none"
  ParserScope = "per call"
  ScanMemo = "none"
  OperandScope = "per call"
  SubqueryColumns = "per table object"
  ResultScope = "per execute call"
INIT TInit
NEXT TNext
INVARIANTS TypeOK SerialInv OwnParameters OwnRow OwnStatement OwnOperands OwnNames OwnResults
CHECK_DEADLOCK FALSE
