------------------------------- MODULE Naming -------------------------------
(***************************************************************************)
(* C07 -- result shape and naming.                                           *)
(* A statement is a sequence of TARGET items; each target is a token          *)
(* sequence with the separator text written before every token, an optional   *)
(* alias, and flags saying how the expression is wrapped.  The description     *)
(* lists exactly the targets in order; a column is named by its alias, else    *)
(* by the column name when the target is a bare column, else by the exact      *)
(* source text of the expression: from the first to the last token of the      *)
(* outermost node that is not a balanced pair of parentheses around the whole  *)
(* expression (a unary plus is not part of any node), inner separators kept,   *)
(* outer separators stripped.  Helper expressions of GROUP BY / ORDER BY /     *)
(* HAVING never appear.                                                        *)
(***************************************************************************)
EXTENDS Integers, Sequences, FiniteSets, TLC, Json

CONSTANTS MaxTargets, Mode        \* Mode: "plain" | "agg"

(* expression shapes as token sequences (k: bare column? ; toks) *)
AggShapes == <<
    [bare |-> FALSE, toks |-> <<"count", "(", "*", ")">>],
    [bare |-> FALSE, toks |-> <<"sum", "(", "v", ")">>],
    [bare |-> FALSE, toks |-> <<"max", "(", "k", ")", "+", "1">>],
    [bare |-> FALSE, toks |-> <<"sum", "(", "v", ")", "/", "count", "(", "v", ")">>],
    [bare |-> FALSE, toks |-> <<"first", "(", "s", ")">>]
>>
PlainShapes == <<
    [bare |-> TRUE,  toks |-> <<"k">>],
    [bare |-> TRUE,  toks |-> <<"v">>],
    [bare |-> FALSE, toks |-> <<"k", "+", "1">>],
    [bare |-> FALSE, toks |-> <<"(", "k", ")", "+", "1">>],
    [bare |-> FALSE, toks |-> <<"k", "*", "(", "v", "-", "1", ")">>],
    [bare |-> FALSE, toks |-> <<"upper", "(", "s", ")">>],
    [bare |-> FALSE, toks |-> <<"-", "v">>],
    [bare |-> FALSE, toks |-> <<"k", "IS", "NULL">>],
    [bare |-> FALSE, toks |-> <<"coalesce", "(", "k", ",", "v", ")">>],
    [bare |-> FALSE, toks |-> <<"v", "BETWEEN", "0", "AND", "2">>],
    [bare |-> FALSE, toks |-> <<"s", "~", "'a'">>],
    [bare |-> FALSE, toks |-> <<"NOT", "k", "=", "v">>]
>>
Shapes == IF Mode = "agg" THEN AggShapes ELSE PlainShapes
Seps == <<" ", "  ", " /* c */ ", "\n ">>          \* separators between the tokens of an expression
Wraps == {0, 1, 2}                                  \* number of balanced parenthesis pairs around the whole expression
Aliases == {"", "x", "kk"}

\* identifiers (column, function and alias names) may be written in any letter case: the parser folds them, so a bare
\* column is named by the (lower-case) column name, while an expression is named by its source text AS WRITTEN
UpMap == [k |-> "K", v |-> "V", s |-> "S", upper |-> "Upper", coalesce |-> "COALESCE", count |-> "Count", sum |-> "SUM",
          max |-> "Max", first |-> "FIRST", x |-> "X", kk |-> "Kk"]
Tok(up, w) == IF up /\ w \in DOMAIN UpMap THEN UpMap[w] ELSE w
\* text of the expression with separator choice `sp` (index into Seps) between tokens
RECURSIVE Join(_, _, _, _)
Join(toks, sp, i, up) == IF i > Len(toks) THEN "" ELSE (IF i = 1 THEN "" ELSE Seps[sp]) \o Tok(up, toks[i]) \o Join(toks, sp, i + 1, up)
Inner(t) == Join(Shapes[t.shape].toks, t.sp, 1, t.up)
RECURSIVE Wrap(_, _)
Wrap(txt, n) == IF n = 0 THEN txt ELSE "(" \o " " \o Wrap(txt, n - 1) \o " " \o ")"
\* what is written in the statement for this target (leading / trailing separators are added by the layout)
Written(t) == Wrap(Inner(t), t.wrap) \o (IF t.as = "" THEN "" ELSE " AS " \o Tok(t.up, t.as))
\* the name rule
NameOf(t) == IF t.as # "" THEN t.as
             ELSE IF Shapes[t.shape].bare THEN Shapes[t.shape].toks[1]
             ELSE Inner(t)

\* clauses that introduce hidden helper targets (grouping keys, ordering keys, HAVING)
Helpers == IF Mode = "agg"
           THEN <<"", " GROUP BY k", " GROUP BY k, s HAVING count(*) > 0", " GROUP BY s ORDER BY max(v) DESC, s",
                  " GROUP BY k HAVING sum(v) >= 0 ORDER BY min(k), count(s)">>
           ELSE <<"", " ORDER BY v + 1, s", " ORDER BY k * 2 DESC, v">>

\* `SELECT *`: the table's default columns in declaration order
Wildcard(kind, cols) ==
    CASE kind = "postings" -> <<"date", "flag", "payee", "narration", "position">>
      [] kind = "typed" -> SelectSeq(cols, LAMBDA c : c # "meta")
      [] OTHER -> cols

VARIABLES targets, helper
vars == <<targets, helper>>
TargetSpace == [shape : 1..Len(Shapes), sp : 1..Len(Seps), wrap : Wraps, as : Aliases, up : BOOLEAN]
\* bare columns cannot be aliased-away from their rule and an aggregate query needs groupable targets: keep all
Init == targets = <<>> /\ helper \in 1..Len(Helpers)
Next == /\ Len(targets) < MaxTargets
        /\ \E t \in TargetSpace : targets' = Append(targets, t)
        /\ UNCHANGED helper
Spec == Init /\ [][Next]_vars

Names == [i \in 1..Len(targets) |-> NameOf(targets[i])]
\* the description never holds more (or fewer) columns than targets, whatever the helper clauses add
ShapeLaw == Len(Names) = Len(targets)
\* an alias always wins; a bare column is named by the column; the text rule never includes outer parentheses
NameLaw == \A i \in 1..Len(targets) :
              /\ targets[i].as # "" => Names[i] = targets[i].as
              /\ (targets[i].as = "" /\ ~Shapes[targets[i].shape].bare) => Names[i] = Inner(targets[i])
Emit == (Len(targets) >= 1) =>
          PrintT(ToJson([written |-> [i \in 1..Len(targets) |-> Written(targets[i])], names |-> Names,
                         helper |-> Helpers[helper], inner |-> [i \in 1..Len(targets) |-> Inner(targets[i])],
                         bare |-> [i \in 1..Len(targets) |-> Shapes[targets[i].shape].bare]]))
=============================================================================
