\* non-vacuity: the parse hook of the shell assigns its default CLOSE date whether or not the statement has a CLOSE -- TLC
\* must find a counterexample
CONSTANTS
  Base <- MCBase
  KeyTab <- MCKeyTab
  CurSeq <- MCCurSeq
  Special <- MCSpecial
  Ledgers = {}
  OpenArgs <- Open03
  CloseArgs <- Close04
  ClearArgs = {TRUE, FALSE}
  Filters <- FNone
  Order <- OrderStated
  CompileMode = "stated"
  Inners <- InnersNone
  ScopeMode = "stated"
  Doors <- DoorsShell
  HookMode = "override"
INIT InitDoorsCover
NEXT Next
INVARIANTS KeepInv BalanceSheetInv IncomeInv EquityInv TxBalanceInv LayoutInv FilterInv CompileInv SortedInv ExpectInv
CHECK_DEADLOCK FALSE
