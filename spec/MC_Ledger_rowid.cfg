\* non-vacuity: rowid deliberately incremented per transaction instead of per yielded row.
\* TLC must violate RowidInv.
CONSTANTS
  Alpha <- SmallAlpha
  MaxLen = 2
  Keys <- SmallKeys
  Mech = "rowidperentry"
  MaxStmts = 1
  QualOpts <- QNone
INIT Init
NEXT Next
INVARIANTS RowidInv
CHECK_DEADLOCK FALSE
