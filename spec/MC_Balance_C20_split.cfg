\* C20, EvalBalance split into lookup / compute / store (model-checked only; not replayable through pause points)
CONSTANTS
  Threads = {1, 2}
  CacheMode = "per row context"
  Split = TRUE
  Programs <- Progs20_2rows
INIT Init
NEXT Next
INVARIANTS TypeOK SerialInv ConsultedInv
PROPERTIES NonInterference NoSharedState
CHECK_DEADLOCK FALSE
