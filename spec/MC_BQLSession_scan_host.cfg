\* non-vacuity of the scan law: a per-row memo keyed as the host language compares the cells (True == 1) must be rejected
CONSTANTS
  Stmts <- Stmts1
  StmtParams <- Params1
  ManyPairs <- Pairs0
  Data <- DataA
  NumberMode = "conforming"
  MaxCalls = 0
INIT Init
NEXT Next
INVARIANTS ScanLawHost
CHECK_DEADLOCK FALSE
