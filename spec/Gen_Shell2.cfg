\* every history of 2 commands over the full alphabet, all four (format, numberify) constructor arguments
CONSTANTS
  Lines <- LinesExtra
  LedgerQueries <- QFixed
  BadStmts <- BadFixed
  Formats <- FormatsShipped
  NonFieldAttrs <- AttrNames
  NameLookup = "fields"
  HonourQuiet = TRUE
  MainQuery = "BALANCES"
  LedgerHasErrors = TRUE
  Depth = 2
  Boots <- BootsAll
INIT GInit
NEXT GNext
INVARIANT Emit
CHECK_DEADLOCK FALSE
