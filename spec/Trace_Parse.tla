------------------------------- MODULE Trace_Parse -------------------------------
(* C05, text half: every statement text submitted to the real code is either accepted or rejected with ParseError /
   CompilationError (DB-API ProgrammingError) -- never another exception -- and a location carried by the rejection
   is a valid span of the text it refers to.  One ndjson line per submitted text:
     [id, len (of the text the location refers to), cls ("ok" | "ParseError" | "CompilationError" | other class name),
      haspos (0/1), pos, endpos, line, nlines, linestart, lineend]
   End-of-input errors are reported by the parser generator as the one-character span just past the end, which
   the shell renders as a caret after the last character: endpos <= len + 1 is accepted (deliberate leniency). *)
EXTENDS Integers, Sequences, TLC, Json, IOUtils

Cases == ndJsonDeserialize(IOEnv.TRACE_FILE)
VARIABLE l
Allowed == {"ok", "ParseError", "CompilationError"}
SpanOK(c) ==
    \/ c.haspos = 0
    \/ /\ 0 <= c.pos /\ c.pos <= c.endpos
       /\ c.pos <= c.len /\ c.endpos <= c.len + 1
       /\ c.line >= 0 /\ c.line < c.nlines
       /\ c.linestart <= c.pos /\ c.pos <= c.lineend
\* render = 1: the shell's error formatter produced a caret line for this rejection (0: it raised)
Verdict(c) == IF c.cls \notin Allowed THEN "class" ELSE IF ~SpanOK(c) THEN "span"
              ELSE IF c.cls # "ok" /\ c.render = 0 THEN "render" ELSE "ok"
Judge(c) == IF Verdict(c) = "ok" THEN TRUE ELSE PrintT(ToJson([verdict |-> "rejected", id |-> c.id, line |-> l, clause |-> Verdict(c)]))
Init == l = 1
Next == l <= Len(Cases) /\ Judge(Cases[l]) /\ l' = l + 1
Spec == Init /\ [][Next]_l
Consumed == TLCGet("stats").diameter - 1 = Len(Cases)
=============================================================================
