\* non-vacuity: converter list sorted ascending.  TLC must violate FreqOrdered.
CONSTANTS
  Space = "inv3"
  Shapes <- ShapesOf
  FmtChoices <- Fmt0
  DCtx <- DCAB
  Prec = "most_common"
  CurSeq <- CS3
  InvNull = "skip"
  Mut = "asc"
INIT Init
NEXT Next
INVARIANTS FreqOrdered
CHECK_DEADLOCK FALSE
