----------------------------- MODULE MC_DateCast -----------------------------
(* MC leg of C18 (the cast date(<text>)): "type casts return the converted value or NULL".  The state enumerates
   dates; the laws tie the declarative reading of the cast (ScalarLib!DateOfStr: the text split at its dashes is a
   year of four digits, a month and a day of one or two digits) to the calendar and to the way the conversion is
   computed (Mech: the text is scanned left to right as strptime scans "%Y-%m-%d", every numeric field taking the
   longest numeral of its range):
     * every spelling of a date in the format - month / day zero padded or not - converts to that date, so the cast
       inverts str() and does not depend on the padding;
     * the other ISO 8601 spellings of the same date (compact, week, ordinal) are not in the format: NULL;
     * a converted text spells its date: re-spelling the result with the padding of the text gives the text back
       (nothing is converted by guessing), checked on the near misses of every spelling (a digit dropped / added,
       a field out of range);
     * the scan and the declarative reading agree on all these texts.
   Mode = "iso" is the non-vacuity run: a conversion that reads ISO 8601 calendar dates (fromisoformat: the padded
   and the compact spelling) violates CastInv.                                                               *)
EXTENDS ScalarLib

CONSTANTS Lo, Hi, Step, Mode

VARIABLE o
Init == o \in {x \in Lo..Hi : (x - Lo) % Step = 0}
Next == UNCHANGED o

(* ---- the conversion as it is computed -------------------------------------------------------------------- *)
\* the numeral of range lo..hi that a field scan takes at position i: two digits if they are in range, else one
FieldLen(s, i, lo, hi) ==
  IF i + 1 <= Len(s) /\ IsDigits(SubSeq(s, i, i + 1)) /\ DigitsVal(SubSeq(s, i, i + 1)) \in lo..hi THEN 2
  ELSE IF i <= Len(s) /\ Ch(s, i) \in (DigitSet \ {"0"}) THEN 1
  ELSE 0
Scan(s) ==
  IF Len(s) < 5 \/ ~IsDigits(SubSeq(s, 1, 4)) \/ Ch(s, 5) # "-" THEN N
  ELSE LET ml == FieldLen(s, 6, 1, 12)
           j == 6 + ml                                  \* the second dash
           dl == FieldLen(s, j + 1, 1, 31)
       IN IF ml = 0 \/ j > Len(s) \/ Ch(s, j) # "-" \/ dl = 0 \/ j + dl # Len(s) THEN N  \* (text left over: no date)
          ELSE OptD(DateFromYMD(DigitsVal(SubSeq(s, 1, 4)), DigitsVal(SubSeq(s, 6, j - 1)),
                                DigitsVal(SubSeq(s, j + 1, Len(s)))))
\* ISO 8601 calendar dates: YYYY-MM-DD and YYYYMMDD
IsoScan(s) ==
  LET t == IF Len(s) = 10 /\ Ch(s, 5) = "-" /\ Ch(s, 8) = "-" THEN SubSeq(s, 1, 4) \o SubSeq(s, 6, 7) \o SubSeq(s, 9, 10)
           ELSE s
  IN IF Len(t) = 8 /\ IsDigits(t) /\ (Len(s) = 10 \/ Len(s) = 8)
       THEN OptD(DateFromYMD(DigitsVal(SubSeq(t, 1, 4)), DigitsVal(SubSeq(t, 5, 6)), DigitsVal(SubSeq(t, 7, 8))))
     ELSE N
Mech(s) == IF Mode = "iso" THEN IsoScan(s) ELSE Scan(s)

(* ---- texts ------------------------------------------------------------------------------------------------- *)
\* near misses of a text: a character dropped, a digit or a dash doubled
Drop(s, i) == SubSeq(s, 1, i - 1) \o SubSeq(s, i + 1, Len(s))
Twice(s, i) == SubSeq(s, 1, i) \o SubSeq(s, i, Len(s))
NearMisses(s) == {Drop(s, i) : i \in 1..Len(s)} \cup {Twice(s, i) : i \in 1..Len(s)}
\* the padding of a text that has the shape of the format
PaddedM(s) == LET p == Split(s, "-") IN Len(p[2]) = 2
PaddedD(s) == LET p == Split(s, "-") IN Len(p[3]) = 2
\* re-spelling with the padding of the text: a one-digit field is written without padding, a two-digit field padded
Respell(r, s) == Spell(r, PaddedM(s), PaddedD(s))

CastInv ==
  /\ \A s \in Spellings(o) : Mech(s) = D(o) /\ DateOfStr(s) = D(o)
  /\ Mech(DateStr(o)) = D(o)
  /\ \A s \in OtherSpellings(o) : Mech(s) = N /\ DateOfStr(s) = N
  /\ \A s \in Spellings(o) : \A t \in NearMisses(s) :
       /\ Mech(t) = DateOfStr(t)
       /\ DateOfStr(t) # N => /\ DateOfStr(t)[1] = "d"
                              /\ Respell(DateOfStr(t)[2], t) = t
=============================================================================
