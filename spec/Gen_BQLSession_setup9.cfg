CONSTANTS
  Stmts <- Stmts9
  StmtParams <- Params9
  ManyPairs <- Pairs1
  Data <- DataA
  NumberMode = "conforming"
  MaxCalls = 0
  GenTextIdx <- Idx123
  Depth = 0
INIT HInit
NEXT HNext
INVARIANT EmitSetup
CHECK_DEADLOCK FALSE
