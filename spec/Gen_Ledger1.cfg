\* every ledger of <= 1 directive over the generator alphabet (104 directives: every option product)
CONSTANTS
  Alpha <- GenAlpha
  MaxLen = 1
  Keys <- GenKeys
  Mech = "ok"
  MaxStmts = 1
  QualOpts <- QNone
INIT GInit
NEXT GNext
INVARIANT Emit
CHECK_DEADLOCK FALSE
