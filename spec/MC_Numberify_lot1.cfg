\* non-vacuity: only the first lot of a currency is reported.  TLC must violate Correct (clause cells).
CONSTANTS
  Space = "inv2lots"
  Shapes <- ShapesOf
  FmtChoices <- Fmt0
  DCtx <- DCAB
  Prec = "most_common"
  CurSeq <- CS3
  InvNull = "skip"
  Mut = "lot1"
INIT Init
NEXT Next
INVARIANTS Correct
CHECK_DEADLOCK FALSE
