\* coverage run with every door: every step of the mechanism, the parse hook of the shell included, must be taken
CONSTANTS
  Base <- MCBase
  KeyTab <- MCKeyTab
  CurSeq <- MCCurSeq
  Special <- MCSpecial
  Ledgers = {}
  OpenArgs <- Open03
  CloseArgs <- Close04
  ClearArgs = {TRUE, FALSE}
  Filters <- FNone
  Order <- OrderStated
  CompileMode = "stated"
  Inners <- InnersNone
  ScopeMode = "stated"
  Doors <- DoorsAll
  HookMode = "stated"
INIT InitDoorsCover
NEXT Next
INVARIANTS KeepInv BalanceSheetInv IncomeInv EquityInv TxBalanceInv LayoutInv FilterInv CompileInv SortedInv ExpectInv
CHECK_DEADLOCK FALSE
