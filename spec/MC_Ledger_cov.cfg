\* exhaustive: every well-formed ledger of <= 1 directive (per-action coverage run) over the 16-letter alphabet x every table
CONSTANTS
  Alpha <- SmallAlpha
  MaxLen = 1
  Keys <- SmallKeys
  Mech = "ok"
  MaxStmts = 1
  QualOpts <- QNone
INIT Init
NEXT Next
INVARIANTS TypeOK MechEqDecl RowidInv Laws HelperLaws
CHECK_DEADLOCK FALSE
