\* thorough tier, second granularity: decimals k/8, |k| <= 100, digits -2..2 (ties at the third decimal place)
CONSTANTS
  MaxK = 100
  Den = 8
  MaxDigits = 2
INIT Init
NEXT Next
INVARIANTS RatInv AbsNegInv RoundInv SafeDivInv
CHECK_DEADLOCK FALSE
