CONSTANTS
  Base <- MCBase
  KeyTab <- MCKeyTab
  CurSeq <- MCCurSeq
  Special <- MCSpecial
  Ledgers = {}
  OpenArgs <- Open05
  CloseArgs <- Close05
  ClearArgs = {TRUE, FALSE}
  Filters <- FAll
  Order <- OrderStated
  CompileMode = "stated"
  Inners <- InnersNone
  ScopeMode = "stated"
  Doors <- DoorsApi
  HookMode = "stated"
INIT InitNone
NEXT KNext
INVARIANTS EmitKeys
CHECK_DEADLOCK FALSE
