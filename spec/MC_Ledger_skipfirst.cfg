\* non-vacuity: the inner loop deliberately skips the first posting of multi-posting transactions.
\* TLC must violate MechEqDecl.
CONSTANTS
  Alpha <- SmallAlpha
  MaxLen = 2
  Keys <- SmallKeys
  Mech = "skipfirst"
  MaxStmts = 1
  QualOpts <- QNone
INIT Init
NEXT Next
INVARIANTS MechEqDecl
CHECK_DEADLOCK FALSE
