\* non-vacuity: an empty accumulator that adopts the operand object must be rejected (two nodes over one operand, or the second execution)
CONSTANTS
  Mode = "adopt"
  Scale = 1
  MaxRows = 2
  HistLen = 2
  Rich = FALSE
  RichCells = FALSE
  Limits = {0, 1}
  Prices <- MCPrices
INIT InitSmall
NEXT SNext
INVARIANTS ResultInv
CHECK_DEADLOCK FALSE
