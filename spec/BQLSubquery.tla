----------------------------- MODULE BQLSubquery -----------------------------
(***************************************************************************)
(* C08 -- subqueries compose.                                              *)
(*                                                                         *)
(* MECHANISM (beanquery/compiler.py:43-46,81-172,446-451,550-562 and       *)
(* query_compile.py:507-545).  Compiling a statement is a recursive walk   *)
(* over the AST that shares ONE variable, the compiler's current table     *)
(* (`Compiler.table`): each FROM clause assigns it, each column reference  *)
(* reads it, and the compiled query remembers the value it has when the    *)
(* SELECT has been walked (`EvalQuery(self.table, ...)`).  The walk is     *)
(* modelled as the pre-order program of the statement (one instruction per *)
(* step of the walk) executed with an explicit frame stack:                *)
(*    EnterSelect, SetTableFromClause, ExpandStar, ResolveColumn,          *)
(*    LeaveSelect.                                                         *)
(* Restore = TRUE  : the table is saved when a SELECT is entered and       *)
(*                   restored when it is left (property-conforming)        *)
(* Restore = FALSE : as shipped -- a nested SELECT leaves ITS table behind *)
(*                                                                         *)
(* Execution: `FROM (q)` iterates Rows(q) with one positional accessor per *)
(* VISIBLE output of q, named and typed by it; `x IN (q)` evaluates        *)
(* Column1(Rows(q)) (once per compiled statement; there is no state that   *)
(* could change between evaluations inside one execution, so the cache is  *)
(* a function here), the empty column being NULL.                          *)
(*                                                                         *)
(* PROPERTY (declarative, BQLMiniSem!Denote): every SELECT resolves its    *)
(* columns against, and iterates over, the table named by its own FROM     *)
(* clause; SELECT * FROM (q) = q; FROM (q) = the outer query over          *)
(* Materialise(q); IN / NOT IN = membership, NULL for NULL x / empty q.    *)
(***************************************************************************)
EXTENDS BQLMiniSem

CONSTANTS
    Tabs,       \* table name |-> [cols, rows]
    Restore     \* TRUE (conforming) | FALSE (as shipped)

Nil == [k |-> "nil"]        \* Compiler.table before any FROM clause (no `postings` table on these connections)

-----------------------------------------------------------------------------
(* The walk as a program.  Nodes are identified by their path from the root:
     SELECT p : FROM-subquery p \o <<0>>, target j p \o <<1, j>>, WHERE p \o <<2>>, ORDER BY k p \o <<3, k>>
     expression p : left / argument p \o <<1>>, right / IN-subquery p \o <<2>>                               *)
RECURSIVE Program(_, _), ExprProg(_, _)

ExprProg(e, p) ==
    CASE e.k = "col" -> << [op |-> "resolve", p |-> p, n |-> e.n] >>
      [] e.k \in {"bin", "and"} -> ExprProg(e.l, p \o <<1>>) \o ExprProg(e.r, p \o <<2>>)
      [] e.k = "in" -> ExprProg(e.l, p \o <<1>>) \o Program(e.q, p \o <<2>>)
      [] e.k = "agg" -> ExprProg(e.e, p \o <<1>>)
      [] OTHER -> <<>>

Program(q, p) ==
    << [op |-> "enter", p |-> p, node |-> q] >>
    \o (IF q.from.k = "sub" THEN Program(q.from.q, p \o <<0>>) ELSE <<>>)
    \o << [op |-> "settable", p |-> p, node |-> q] >>
    \o (IF q.star THEN << [op |-> "star", p |-> p] >>
        ELSE FlattenSeq([j \in 1..Len(q.tg) |-> ExprProg(q.tg[j].e, p \o <<1, j>>)]))
    \o (IF q.wh = NoExpr THEN <<>> ELSE ExprProg(q.wh, p \o <<2>>))
    \o FlattenSeq([k \in 1..Len(q.ord) |->
                     IF OrdTargetIndex(q, k) # 0 THEN <<>> ELSE ExprProg(q.ord[k].e, p \o <<3, k>>)])
    \o << [op |-> "leave", p |-> p, node |-> q] >>

VARIABLES
    q,          \* the statement being compiled and executed
    pc,         \* index of the next instruction of Program(q, <<>>); Len + 1 = compiled; 0 = compilation failed
    curTable,   \* Compiler.table : Nil | [k |-> "tab", n] | [k |-> "sub", p]  (p = path of the compiled inner SELECT)
    stack,      \* frames of the SELECTs being compiled: [sel |-> path, saved |-> table on entry]
    nodes,      \* path |-> SELECT node             (recorded by EnterSelect)
    colres,     \* path |-> [sel, tab, i, ty]      (ResolveColumn: frame, table consulted, position, type)
    starx,      \* path |-> schema                  (ExpandStar: the columns `*` stood for)
    iter,       \* path |-> table                   (LeaveSelect: EvalQuery(self.table, ...))
    outs        \* path |-> schema of the compiled SELECT's visible outputs (what SubqueryTable exposes)

vars == <<q, pc, curTable, stack, nodes, colres, starx, iter, outs>>

Prog == Program(q, <<>>)
Ext(f, x, v) == [y \in (DOMAIN f) \cup {x} |-> IF y = x THEN v ELSE f[y]]
Empty == [x \in {} |-> 0]

SchemaM(t) == CASE t.k = "tab" -> Tabs[t.n].cols
                [] t.k = "sub" -> outs[t.p]
                [] OTHER -> <<>>

-----------------------------------------------------------------------------
(* building the resolved statement from what the walk recorded *)
RECURSIVE Build(_, _), BuildE(_, _)

BuildE(e, p) ==
    CASE e.k = "col" -> IF p \notin DOMAIN colres \/ colres[p].i = 0 THEN [k |-> "bad"]
                        ELSE [k |-> "acc", i |-> colres[p].i, ty |-> colres[p].ty]
      [] e.k = "bin" -> [k |-> "bin", op |-> e.op, l |-> BuildE(e.l, p \o <<1>>), r |-> BuildE(e.r, p \o <<2>>)]
      [] e.k = "and" -> [k |-> "and", l |-> BuildE(e.l, p \o <<1>>), r |-> BuildE(e.r, p \o <<2>>)]
      [] e.k = "in" -> [k |-> "in", neg |-> e.neg, l |-> BuildE(e.l, p \o <<1>>), q |-> Build(e.q, p \o <<2>>)]
      [] e.k = "agg" -> [k |-> "agg", f |-> e.f, e |-> BuildE(e.e, p \o <<1>>)]
      [] OTHER -> e

BuildTargets(node, p) ==
    IF node.star
    THEN LET sch == IF p \in DOMAIN starx THEN starx[p] ELSE <<>> IN
         [j \in 1..Len(sch) |-> [e |-> [k |-> "acc", i |-> j, ty |-> sch[j][2]], nm |-> sch[j][1], ty |-> sch[j][2]]]
    ELSE [j \in 1..Len(node.tg) |-> LET re == BuildE(node.tg[j].e, p \o <<1, j>>)
                                    IN [e |-> re, nm |-> NameOf(node.tg[j]), ty |-> TypeOfR(re)]]

Build(node, p) ==
    [tg |-> BuildTargets(node, p),
     src |-> IF p \notin DOMAIN iter THEN Nil
             ELSE IF iter[p].k = "sub" THEN [k |-> "sub", q |-> Build(nodes[iter[p].p], iter[p].p)]
             ELSE iter[p],
     wh |-> IF node.wh = NoExpr THEN NoExpr ELSE BuildE(node.wh, p \o <<2>>),
     ord |-> [k \in 1..Len(node.ord) |->
                IF OrdTargetIndex(node, k) # 0
                THEN [k |-> "tgt", i |-> OrdTargetIndex(node, k), desc |-> node.ord[k].desc]
                ELSE [k |-> "expr", e |-> BuildE(node.ord[k].e, p \o <<3, k>>), desc |-> node.ord[k].desc]],
     dis |-> node.dis, lim |-> node.lim]

OutSchemaM(node, p) == LET t == BuildTargets(node, p) IN [j \in 1..Len(t) |-> <<t[j].nm, t[j].ty>>]

-----------------------------------------------------------------------------
InitWith(queries) ==         \* queries = the set of statements explored
    /\ q \in queries
    /\ pc = 1
    /\ curTable = Nil
    /\ stack = <<>>
    /\ nodes = Empty /\ colres = Empty /\ starx = Empty /\ iter = Empty /\ outs = Empty

Running == pc >= 1 /\ pc <= Len(Prog)
Ins == Prog[pc]
Top == stack[Len(stack)]

EnterSelect ==
    /\ Running /\ Ins.op = "enter"
    /\ stack' = Append(stack, [sel |-> Ins.p, saved |-> curTable])
    /\ nodes' = Ext(nodes, Ins.p, Ins.node)
    /\ pc' = pc + 1
    /\ UNCHANGED <<q, curTable, colres, starx, iter, outs>>

SetTableFromClause ==
    /\ Running /\ Ins.op = "settable"
    /\ curTable' = IF Ins.node.from.k = "tab" THEN [k |-> "tab", n |-> Ins.node.from.n]
                   ELSE [k |-> "sub", p |-> Ins.p \o <<0>>]          \* SubqueryTable(compiled inner SELECT)
    /\ pc' = pc + 1
    /\ UNCHANGED <<q, stack, nodes, colres, starx, iter, outs>>

ExpandStar ==
    /\ Running /\ Ins.op = "star"
    /\ starx' = Ext(starx, Ins.p, SchemaM(curTable))                 \* self.table.wildcard_columns
    /\ pc' = pc + 1
    /\ UNCHANGED <<q, curTable, stack, nodes, colres, iter, outs>>

ResolveColumn ==
    /\ Running /\ Ins.op = "resolve"
    /\ LET sch == SchemaM(curTable)                                   \* self.table.columns.get(name)
           i == IndexOfName(sch, Ins.n)
       IN /\ colres' = Ext(colres, Ins.p, [sel |-> Top.sel, tab |-> curTable, i |-> i,
                                           ty |-> IF i = 0 THEN "none" ELSE sch[i][2]])
          /\ pc' = IF i = 0 THEN 0 ELSE pc + 1                        \* CompilationError: column does not exist
    /\ UNCHANGED <<q, curTable, stack, nodes, starx, iter, outs>>

LeaveSelect ==
    /\ Running /\ Ins.op = "leave"
    /\ iter' = Ext(iter, Ins.p, curTable)                             \* EvalQuery(self.table, ...)
    /\ outs' = Ext(outs, Ins.p, OutSchemaM(Ins.node, Ins.p))
    /\ stack' = SubSeq(stack, 1, Len(stack) - 1)
    /\ curTable' = IF Restore /\ Len(stack) > 1 THEN Top.saved ELSE curTable
    /\ pc' = pc + 1
    /\ UNCHANGED <<q, nodes, colres, starx>>

Next == EnterSelect \/ SetTableFromClause \/ ExpandStar \/ ResolveColumn \/ LeaveSelect
SpecWith(queries) == InitWith(queries) /\ [][Next]_vars

-----------------------------------------------------------------------------
Compiled == pc = Len(Prog) + 1
CompileFailed == pc = 0
(* what executing the compiled statement returns *)
Exec == IF CompileFailed THEN Failed ELSE RunQ(Build(q, <<>>), Tabs)

OwnTable(node, p) == IF node.from.k = "tab" THEN [k |-> "tab", n |-> node.from.n] ELSE [k |-> "sub", p |-> p \o <<0>>]

(* ---- the property ---- *)
\* every column is resolved against the table named by the FROM clause of the SELECT it belongs to ...
ResolvesOwnTable == \A p \in DOMAIN colres : colres[p].tab = OwnTable(nodes[colres[p].sel], colres[p].sel)
\* ... `*` stands for the columns of that table ...
StarOwnTable == \A p \in DOMAIN starx : starx[p] = SchemaM(OwnTable(nodes[p], p))
\* ... and every SELECT iterates over that table
IteratesOwnTable == \A p \in DOMAIN iter : iter[p] = OwnTable(nodes[p], p)
\* a well-formed statement compiles, and running it gives the declarative result (rows and description)
ExecIsDenote == (Compiled \/ CompileFailed) => (Exec = Denote(q, Tabs) /\ Exec.ok)
\* SELECT * FROM (q') returns q''s rows and description unchanged
StarIdentity ==
    (Compiled /\ q.star /\ q.wh = NoExpr /\ q.from.k = "sub") => Exec = Denote(q.from.q, Tabs)
\* FROM (q') = the outer query over a table holding q''s result
MaterialisedForm ==
    (Compiled /\ q.from.k = "sub") =>
        LET inner == Denote(q.from.q, Tabs)
            outer == [q EXCEPT !.from = [k |-> "tab", n |-> "m"]]
        IN Exec = Denote(outer, WithTable(Tabs, "m", Materialise(inner)))
\* x IN (q') / x NOT IN (q') as a target over a plain table: membership in the single output column
InIsMembership ==
    (Compiled /\ ~q.star /\ q.from.k = "tab" /\ q.wh = NoExpr /\ q.ord = <<>> /\ ~q.dis /\ q.lim = -1) =>
        \A j \in 1..Len(q.tg) :
            (q.tg[j].e.k = "in" /\ q.tg[j].e.l.k = "col") =>
                LET col1 == LET r == Denote(q.tg[j].e.q, Tabs) IN [i \in 1..Len(r.rows) |-> r.rows[i][1]]
                    src == Tabs[q.from.n]
                    xi == IndexOfName(src.cols, q.tg[j].e.l.n)
                IN /\ Len(Exec.rows) = Len(src.rows)
                   /\ \A i \in 1..Len(src.rows) :
                        LET x == src.rows[i][xi]
                            member == \E m \in 1..Len(col1) : col1[m] = x
                        IN Exec.rows[i][j] = IF IsNull(x) \/ col1 = <<>> THEN Null
                                             ELSE B(IF q.tg[j].e.neg THEN ~member ELSE member)
\* ... and in WHERE: exactly the rows whose x is a member (not a member) are kept, none when x is NULL or q' is empty
InWhereIsMembership ==
    (Compiled /\ q.from.k = "tab" /\ q.wh # NoExpr /\ q.ord = <<>> /\ ~q.dis /\ q.lim = -1 /\ ~q.star
        /\ Len(q.tg) = 1 /\ q.tg[1].e.k = "col") =>
        ((q.wh.k = "in" /\ q.wh.l.k = "col") =>
            LET col1 == LET r == Denote(q.wh.q, Tabs) IN [i \in 1..Len(r.rows) |-> r.rows[i][1]]
                src == Tabs[q.from.n]
                xi == IndexOfName(src.cols, q.wh.l.n)
                ti == IndexOfName(src.cols, q.tg[1].e.n)
                keep == SelectSeq(src.rows, LAMBDA r :
                            /\ ~IsNull(r[xi]) /\ col1 # <<>>
                            /\ (q.wh.neg # (\E m \in 1..Len(col1) : col1[m] = r[xi])))
            IN Exec.rows = [i \in 1..Len(keep) |-> <<keep[i][ti]>>])
\* domain of the model: the visible outputs of every SELECT have distinct names (the statement is silent otherwise)
DistinctOutputs == \A p \in DOMAIN outs : \A i, j \in 1..Len(outs[p]) : outs[p][i][1] = outs[p][j][1] => i = j
\* the walk leaves the stack empty
StackInv == Compiled => stack = <<>>
=============================================================================
