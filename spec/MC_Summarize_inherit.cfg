\* non-vacuity: a FROM clause without OPEN / CLOSE / CLEAR does not reset the clauses of the current table (the subquery
\* inherits the period of the enclosing statement) -- TLC must violate ScopeInv
CONSTANTS
  Base <- MCBase
  KeyTab <- MCKeyTab
  CurSeq <- MCCurSeq
  Special <- MCSpecial
  Ledgers = {}
  OpenArgs <- Open03
  CloseArgs <- Close04
  ClearArgs = {TRUE, FALSE}
  Filters <- FNone
  Order <- OrderStated
  CompileMode = "stated"
  Inners <- InnersQuick
  ScopeMode = "inherit"
  Doors <- DoorsApi
  HookMode = "stated"
INIT InitNested
NEXT Next
INVARIANTS ScopeInv KeepInv BalanceSheetInv IncomeInv EquityInv TxBalanceInv LayoutInv FilterInv CompileInv SortedInv ExpectInv
CHECK_DEADLOCK FALSE
