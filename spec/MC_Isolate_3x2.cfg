\* C20, exhaustive: 3 threads over 2-directive ledgers (shared connection, separate connections, same / other ledger)
CONSTANTS
  Threads = {1, 2, 3}
  CompilerScope = "per execution"
  ColumnMemo = "none"
  ParserScope = "per call"
  ScanMemo = "none"
  OperandScope = "per call"
  SubqueryColumns = "per table object"
  ResultScope = "per execute call"
  JobSet = "2rows"
INIT Init
NEXT Next
INVARIANTS TypeOK SerialInv OwnParameters OwnRow OwnStatement OwnOperands OwnNames OwnResults
PROPERTIES NonInterference NoSharedState JobConstant
CHECK_DEADLOCK FALSE
