------------------------------ MODULE Gen_C18 ------------------------------
(* Spec -> code generator of C18.  A job is a function form with its constant arguments and a domain of column
   arguments derived from the specification (dates at which some unit's truncation / part / bin changes, +/- 1
   day; account names; strings x index arguments; decimals; cast inputs).  One state per job; the action prints
   the job with the value the specification demands for every row:
        {"f": form, "c": [constants], "rows": [[column arguments..., expected], ...]}
   The Python driver builds a harness table from the rows, evaluates the form THROUGH BQL and compares.     *)
EXTENDS ScalarLib, Json

CONSTANTS Family,            \* "calendar" | "accounts" | "strings" | "numeric"
          GenLo, GenHi,      \* calendar: boundary dates of [GenLo, GenHi] (plus the century edges of 1900..2100)
          MaxLen             \* strings: all strings of length <= MaxLen over {a, B, ':', ' '}

(* ---- domains ------------------------------------------------------------------------------------------ *)
Y1900 == Ord(1900, 1, 1)
Y2100 == Ord(2100, 12, 31)
\* a boundary date: the first day of a month (hence of a quarter, year, decade, century when it is one), and the
\* days around New Year where the ISO year / week numbering turns; each with its neighbours
IsEdge(o) == LET c == Civil(o) IN c.d = 1 \/ (c.m = 12 /\ c.d >= 25) \/ (c.m = 1 /\ c.d <= 7) \/ (c.m = 2 /\ c.d >= 28)
Near(o) == IsEdge(o - 1) \/ IsEdge(o) \/ IsEdge(o + 1)
CenturyEdges == UNION {{Ord(y, 1, 1) - 2, Ord(y, 1, 1) - 1, Ord(y, 1, 1), Ord(y, 1, 1) + 1} :
                       y \in {1900, 1901, 1910, 2000, 2001, 2010, 2100, 2101}}
                \cup UNION {{Ord(y, 3, 1) - 2, Ord(y, 3, 1) - 1, Ord(y, 3, 1)} : y \in {1900, 1904, 1996, 2000, 2004, 2096, 2100}}
BDates == {o \in GenLo..GenHi : Near(o)} \cup CenturyEdges
\* date_bin: a window (the shipped walk is linear in the distance from the origin) with the days around the bin
\* boundaries of the origins used below (1st, 15th, 28th)
BinLo == Ord(2018, 1, 1)
BinHi == Ord(2022, 12, 31)
BinDates == {o \in BinLo..BinHi : Civil(o).d \in {1, 2, 14, 15, 16, 27, 28, 29, 31}}
            \cup {o \in BinLo..BinHi : o % 7 = 0}

Alphabet == {"a", "B", ":", " "}
RECURSIVE StrUpTo(_)
StrUpTo(k) == IF k = 0 THEN {""} ELSE StrUpTo(k - 1) \cup {s \o ch : s \in StrUpTo(k - 1), ch \in Alphabet}
AllStr == StrUpTo(MaxLen)
Idx == -6..6
WordSet == {"a", "Bb", "a:B:", "aaaaaaa", "BBBBBBBBBBBB"}
Texts == {JoinSeq(ws, sp) : ws \in {<<w>> : w \in WordSet} \cup {<<w, x>> : w \in WordSet, x \in WordSet}
                                   \cup {<<w, x, y>> : w \in WordSet, x \in WordSet, y \in {"a", "Bb"}},
                            sp \in {" ", "  "}} \cup {" a  Bb ", "", "   ", " aaaaaaa"}
Lits == StrUpTo(2)
Pats0 == {[bol |-> bo, pre |-> "", grp |-> l, post |-> "", eol |-> eo, g |-> 0] : bo \in {0, 1}, eo \in {0, 1}, l \in Lits}
Pats1 == {[bol |-> bo, pre |-> x, grp |-> y, post |-> z, eol |-> eo, g |-> 1] :
            bo \in {0, 1}, eo \in {0, 1}, x \in {"", "a"}, y \in {"", "B", ":"}, z \in {"", "a"}}
SetVals == {<<>>, <<"a">>, <<"B", "a">>, <<" a", "B:", "a">>, <<":", "B", "aB">>, <<"", "a">>, <<"a:", "a:B", "aa">>}

SubNames == {"A", "Bb", "C1"}
RECURSIVE Paths(_)
Paths(k) == IF k = 0 THEN {<<>>} ELSE Paths(k - 1) \cup {Append(p, n) : p \in Paths(k - 1), n \in SubNames}
Accts == {JoinAcc(<<RootNames[r]>> \o p) : r \in 1..5, p \in Paths(3)}

Decs == {Rat(k, 4) : k \in -40..40}
DecsFine == {Rat(k, 8) : k \in -24..24} \cup {Rat(k, 200) : k \in {-201, -199, -1, 1, 99, 101, 2499, 2501, 2500, 3500}}

IntTexts == {"12", "-3", " 7 ", "007", "+5", "", " ", "a", "1.5", "1 2", "--1", "+", "2020-01-01", "B:", "0", "-0",
             "1_0", "123456789"}
DecTexts == {"1.5", "-0.25", ".5", "1.", " 2.50 ", "+3", ".", "", "1.2.3", "a", "1 2", "-", "B:", "12", "0.00",
             "1e3", "NaN", "Infinity", "-Infinity", "1_0"}
SpellDates == CenturyEdges \cup {Ord(2022, 4, 5), Ord(1999, 1, 31), Ord(2023, 10, 9), Ord(2021, 1, 3), Ord(2024, 12, 30),
                                Ord(2020, 11, 7), Ord(999, 1, 1), Ord(9999, 12, 31)}
DateTexts == {DateStr(o) : o \in {Ord(1900, 1, 1), Ord(2000, 2, 29), Ord(2020, 12, 31), Ord(2100, 12, 31), Ord(999, 1, 1)}}
             \cup {"2021-02-29", "2020-13-01", "2020-00-10", "2020-01-00", "2020-01-32", "1900-02-29", "2000-02-30",
                   "2020-04-31", "0000-01-01", "", "abcd", "2020-01-01x", "x020-01-01", "2020/01/01", "20200101",
                   "2020-1-5", "2020-01-1", " 2020-01-01", "2020:01:01", "TRUE"}
             \* every spelling of the cast format (month / day zero padded or not) and the other ISO 8601 spellings of
             \* boundary dates; near misses of the format
             \cup UNION {Spellings(o) \cup OtherSpellings(o) : o \in SpellDates}
             \cup {"2023-2-29", "2024-2-29", "2022-4-31", "2022-13-1", "2022-0-5", "2022-4-0", "2022-4-32", "2022-12-1",
                   "999-1-1", "02022-4-5", "22-4-5", "2022-004-5", "2022-4-005", "2022-4-5-", "-2022-4-5", "2022--4-5",
                   "2022-4", "2022-4-5 ", "+2022-4-5", "2022-4-5T00:00:00", "2022-04-05T00:00", "2022/4/5", "5-4-2022"}
\* the same texts written as literals in the statement (a sample: one statement each)
DateLiterals == {"2022-04-05", "2022-4-5", "2022-04-5", "2022-4-05", "1999-1-31", "2023-2-29", "2024-2-29", "20220405",
                 "2022-W14-2", "2022W142", "2022-W14", "2022-095", "2022-13-1", "2022-4-31", "", "foo", "2022-04",
                 "2022-004-05", "22-04-05"}
                \cup UNION {{Spell(o, FALSE, FALSE), SpellCompact(o)} : o \in {Ord(1900, 1, 1), Ord(2100, 12, 31), Ord(2021, 10, 9)}}
Objs == {<<"i", 0>>, <<"i", -7>>, <<"i", 42>>, <<"b", 0>>, <<"b", 1>>, <<"q", 0, 1>>, <<"q", -11, 4>>, <<"q", 5, 2>>,
         <<"q", 7, 1>>, <<"s", "">>, <<"s", "12">>, <<"s", "1.5">>, <<"s", "abc:">>, <<"s", "2020-02-29">>,
         <<"s", "2021-02-29">>, <<"d", 737425>>, <<"d", 693596>>}
Specials == {<<"x", "NaN">>, <<"x", "Infinity">>, <<"x", "-Infinity">>, <<"q", -11, 4>>, <<"q", 0, 1>>}

(* ---- jobs: [f, c, dom] where dom is a set of column-argument tuples; kept in SEQUENCES (constants of different
   types must never meet in one set) -------------------------------------------------------------------- *)
J(f, c, dom) == [f |-> f, c |-> c, dom |-> dom]
D1(XS) == {<<x>> : x \in XS}
Each(seq, Op(_)) == [i \in 1..Len(seq) |-> Op(seq[i])]
RECURSIVE Flatten(_)
Flatten(ss) == IF Len(ss) = 0 THEN <<>> ELSE Head(ss) \o Flatten(Tail(ss))

UnitsG == TruncUnits \o <<"fortnight">>
FieldsG == PartFields \o <<"doy">>
IvalsAdd == << <<1, "month">>, <<-1, "month">>, <<1, "year">>, <<-1, "year">>, <<12, "month">>, <<11, "month">>,
               <<-13, "month">>, <<4, "year">>, <<30, "day">>, <<-1, "day">>, <<0, "month">>, <<3, "month">> >>
BinStrides == << <<1, "day">>, <<2, "day">>, <<7, "day">>, <<30, "day">>, <<1, "month">>, <<2, "month">>, <<3, "month">>,
                 <<12, "month">>, <<1, "year">>, <<2, "year">> >>
BinOrigins == <<Ord(2020, 1, 1), Ord(2019, 6, 15), Ord(2021, 2, 28), Ord(2025, 1, 1), Ord(2016, 2, 29)>>
Pairs(o) == {o - 1, o + 31, Ord(2000, 2, 29)}
ColOrigins(o) == {DateTrunc("month", o), DateTrunc("year", o) + 14, AddIval(DateTrunc("month", o), Ival(-6, "month")), o + 1, o}
CalendarJobs ==
  Each(UnitsG, LAMBDA u : J("date_trunc", <<u>>, D1(BDates)))
  \o Each(FieldsG, LAMBDA f : J("date_part", <<f>>, D1(BDates)))
  \o Each(<<"year", "month", "day", "yearmonth", "quarter", "weekday">>, LAMBDA f : J(f, <<>>, D1(BDates)))
  \o Each(<<-366, -31, -1, 0, 1, 28, 365, 36525>>, LAMBDA n : J("date_add", <<n>>, D1(BDates)))
  \o Each(<<-1, 31>>, LAMBDA n : J("add_date_int", <<n>>, D1(BDates)))
  \o Each(<<1, 366>>, LAMBDA n : J("add_int_date", <<n>>, D1(BDates)))
  \o Each(<<-1, 1, 365>>, LAMBDA n : J("sub_date_int", <<n>>, D1(BDates)))
  \o Each(<<"date_diff", "sub_date_date">>, LAMBDA f : J(f, <<>>, UNION {{<<o, e>> : e \in Pairs(o)} : o \in BDates}))
  \o <<J("date_add_col", <<>>, {<<o, (o % 61) - 30>> : o \in BDates})>>
  \o Each(IvalsAdd, LAMBDA iv : J("add_date_ival", iv, D1(BDates)))
  \o Each(<< <<1, "month">>, <<-1, "year">>, <<45, "day">> >>, LAMBDA iv : J("add_ival_date", iv, D1(BDates)))
  \o Each(<< <<1, "month">>, <<1, "year">>, <<4, "year">>, <<100, "year">>, <<-3, "month">>, <<7, "day">>, <<12, "month">> >>,
          LAMBDA iv : J("sub_date_ival", iv, D1(BDates)))
  \o Each(<< <<1, "month", 5, "day">>, <<1, "year", -1, "month">>, <<1, "month", 1, "month">> >>,
          LAMBDA iv : J("add_date_ival2", iv, D1(BDates)))
  \o Flatten(Each(BinStrides, LAMBDA st : Each(BinOrigins, LAMBDA o : J("date_bin", <<st[1], st[2], o>>, D1(BinDates)))))
  \o Each(<< <<7, "day">>, <<1, "month">>, <<3, "month">>, <<1, "year">> >>,
          LAMBDA st : J("date_bin_col", st, UNION {{<<o, e>> : e \in ColOrigins(o)} : o \in BinDates}))
  \o <<J("date_ymd", <<>>, {<<y, m, dd>> : y \in {1900, 2000, 2023, 2024, 2100, 0, 10000}, m \in 0..13,
                                          dd \in {0, 1, 28, 29, 30, 31, 32}}),
       J("cast", <<"date", "str">>, D1(DateTexts)), J("cast", <<"date", "date">>, D1(CenturyEdges)),
       J("cast", <<"date", "obj">>, D1({<<"s", t>> : t \in DateTexts})),
       J("cast", <<"str", "date">>, D1(CenturyEdges \cup {Ord(2020, 2, 29), Ord(2021, 10, 9)})),
       J("cast", <<"bool", "date">>, D1(CenturyEdges))>>
  \o [i \in 1..Cardinality(DateLiterals) |->
        J("cast_k", <<"date", CHOOSE t \in DateLiterals : Cardinality({u \in DateLiterals : StrLess(u, t)}) = i - 1>>, D1({0}))]

AcctsX == Accts \cup {""}
AccountJobs ==
  <<J("root", <<>>, {<<a, n>> : a \in AcctsX, n \in Idx}),
    J("root1", <<>>, D1(AcctsX)), J("parent", <<>>, D1(AcctsX \cup {"Assets:"})),
    J("leaf", <<>>, D1(AcctsX \cup {"Assets:"})), J("account_sortkey", <<>>, D1(Accts \cup {"Foo:A"})),
    J("possign", <<>>, {<<x, a>> : x \in {<<-5, 2>>, <<0, 1>>, <<1, 4>>, <<3, 1>>}, a \in Accts \cup {"Foo:A"}})>>

\* the same account functions on connections to ledgers that rename the root types (options name_assets ..):
\* translated names, a partial renaming, the assets root alone renamed, the English names permuted
TypeTablesG == <<RootNames,
                 <<"Actif", "Passif", "Capital", "Revenus", "Depenses">>,
                 <<"Assets", "Liabilities", "Equity", "Revenue", "Costs">>,
                 <<"Cash", "Liabilities", "Equity", "Income", "Expenses">>,
                 <<"Income", "Assets", "Expenses", "Liabilities", "Equity">> >>
\* names of 1..3 components under the roots of T, the English roots (known to T or not), an unknown root
AcctsOf(T) == {JoinAcc(<<T[r]>> \o p) : r \in 1..5, p \in Paths(2)}
              \cup {JoinAcc(<<RootNames[r]>> \o p) : r \in 1..5, p \in Paths(1)} \cup {"Foo:A"}
Amts == {<<-5, 2>>, <<0, 1>>, <<1, 4>>, <<3, 1>>}
TypedJobs(T) ==
  <<J("account_sortkey_t", T, D1(AcctsOf(T)))>>
  \o Each(<<"possign_t", "possign_amt", "possign_pos", "possign_inv">>,
          LAMBDA f : J(f, T, {<<x, a>> : x \in Amts, a \in AcctsOf(T)}))
  \o Each(<<1, 2, 3, 4, 5>>, LAMBDA r : J("possign_tk", T \o <<T[r] \o ":A:Bb">>, D1(Amts)))
  \o Each(<<"Assets:A", "Expenses", "Income:C1">>, LAMBDA a : J("possign_tk", T \o <<a>>, D1(Amts)))
TypedAccountJobs == Flatten(Each(TypeTablesG, TypedJobs))

StringJobs ==
  Each(<<"upper", "lower", "length">>, LAMBDA f : J(f, <<>>, D1(AllStr \cup {"az AZ", "a1:Bz"})))
  \o <<J("substr", <<>>, {<<s, a, b>> : s \in AllStr, a \in Idx, b \in Idx}),
       J("splitcomp", <<>>, {<<s, dl, k>> : s \in AllStr, dl \in {":", " ", "a", "a:", "::"}, k \in Idx}),
       J("maxwidth", <<>>, {<<s, n>> : s \in Texts, n \in 4..18}),
       J("grep", <<>>, {<<p, s>> : p \in Pats0 \cup Pats1, s \in AllStr}),
       J("grepn", <<>>, {<<p, s, n>> : p \in Pats0 \cup Pats1, s \in StrUpTo(SMin2(MaxLen, 3)), n \in 0..2}),
       J("subst", <<>>, {<<p, r, s>> : p \in Pats0, r \in {"", "x", "aB"}, s \in AllStr}),
       J("findfirst", <<>>, {<<p, vs>> : p \in Pats0 \cup Pats1, vs \in SetVals}),
       J("joinstr", <<>>, D1(SetVals)), J("length_set", <<>>, D1(SetVals))>>

CastTargets == <<"bool", "int", "decimal", "str">>
NumericJobs ==
  Each(<<"abs", "neg", "round1">>, LAMBDA f : J(f, <<>>, D1(Decs \cup DecsFine)))
  \o <<J("round", <<>>, {<<x, n>> : x \in Decs \cup DecsFine, n \in -2..2}),
       J("round_int1", <<>>, D1(-150..150)), J("round_int", <<>>, {<<k, n>> : k \in -150..150, n \in -2..2}),
       J("safediv", <<>>, {<<x, y>> : x \in Decs, y \in {Rat(k, 4) : k \in -8..8}}),
       J("safediv_int", <<>>, {<<x, k>> : x \in Decs, k \in -5..5})>>
  \o Each(CastTargets, LAMBDA t : J("cast", <<t, "int">>, D1(-12..12 \cup {100000, -99999})))
  \o Each(CastTargets, LAMBDA t : J("cast", <<t, "bool">>, D1({0, 1})))
  \o Each(CastTargets, LAMBDA t : J("cast", <<t, "dec">>, D1(Decs \cup {<<41, 20>>, <<1, 20>>, <<-99, 100>>})))
  \o <<J("cast", <<"int", "str">>, D1(IntTexts)), J("cast", <<"decimal", "str">>, D1(DecTexts \cup IntTexts)),
       J("cast", <<"bool", "str">>, D1(IntTexts)), J("cast", <<"str", "str">>, D1(IntTexts))>>
  \o Each(<<"int", "decimal", "date", "bool", "str">>, LAMBDA t : J("cast", <<t, "obj">>, D1(Objs)))
  \o Each(<<"int", "decimal">>, LAMBDA t : J("cast", <<t, "decx">>, D1(Specials)))

Jobs == CASE Family = "calendar" -> CalendarJobs
          [] Family = "accounts" -> AccountJobs \o TypedAccountJobs
          [] Family = "strings"  -> StringJobs
          [] Family = "numeric"  -> NumericJobs

VARIABLE job
Init == job \in 1..Len(Jobs)
Line(j) == [f |-> j.f, c |-> j.c, rows |-> {v \o <<Apply(j.f, j.c, v)>> : v \in j.dom}]
Emit == PrintT(ToJson(Line(Jobs[job]))) /\ UNCHANGED job
Next == Emit
=============================================================================
