\* exhaustive (quick): columns of <= 2 values x 2^5 options x placeholder lengths 0, 1, 4 x header lengths 1, 4
CONSTANTS
  Tables <- TQuick
  NullLens <- NL014
  SepLens <- SL2
  WidthRule = "full"
  ExpandRule = "atleast1"
  CsvCtx = "own"
INIT Init
NEXT Next
INVARIANTS TypeOK ProtocolInv RectInv OffsetsInv StyleInv HeaderInv ShowsInv DotsInv SkeletonInv TightInv CsvInv
CHECK_DEADLOCK FALSE
