\* non-vacuity: one operand list per FUNCTION, filled in place by every call -- TLC must find the schedule on which a
\* function is applied to an operand another thread's call evaluated
CONSTANTS
  Threads = {1, 2}
  CompilerScope = "per execution"
  ColumnMemo = "none"
  ParserScope = "per call"
  ScanMemo = "none"
  OperandScope = "process-wide, per function"
  SubqueryColumns = "per table object"
  ResultScope = "per execute call"
  JobSet = "operands"
INIT Init
NEXT Next
INVARIANTS OwnOperands
CHECK_DEADLOCK FALSE
