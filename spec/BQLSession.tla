----------------------------- MODULE BQLSession -----------------------------
(***************************************************************************)
(* C09 -- parameters, constant folding, history independence.              *)
(*                                                                         *)
(* MECHANISM (beanquery/compiler.py:48-72,617-619, cursor.py:88-103).      *)
(* A parsed statement is an object that survives between executions; every *)
(* placeholder node has its text position `pos` and a MUTABLE `name`:      *)
(*   ""          as parsed from `%s`                                       *)
(*   identifier  as parsed from `%(name)s`                                 *)
(*   index       written by an execution into the SHARED object            *)
(* Execute(s, p) = Number ; Bind ; Run                                     *)
(*   Number  classifies the names found by walking the tree and, for       *)
(*           positional placeholders, writes 0, 1, .. by text position     *)
(*           into the statement object;                                    *)
(*   Bind    looks every placeholder's name up in the parameters;          *)
(*   Run     evaluates the bound statement over the data.                  *)
(* ExecuteText parses afresh (a private object), ExecuteMany parses once   *)
(* and executes that one object for every parameter set.                   *)
(*                                                                         *)
(* NumberMode = "shipped"    : classification by the code's truthiness     *)
(*                             tests all(names) / not any(names)           *)
(*              "conforming" : classification by what the name is          *)
(*                                                                         *)
(* PROPERTY: the result of every call is Denote(text, params, data) -- a   *)
(* function of those three only, whatever happened before; never an error  *)
(* when the parameters match the placeholders; the data never change;      *)
(* positional parameters bind left to right by TEXT position.              *)
(* Folding: Eval(Fold(e), row) = Eval(e, row).                             *)
(*                                                                         *)
(* STATEMENT CACHE.  A connection may keep compiled statements (the text   *)
(* with its parameters bound) for re-use by execute(text, params), the way *)
(* sqlite3 does.  CacheMode =                                              *)
(*   "none"   no cache (the code as shipped);                              *)
(*   "exact"  key = (text, the parameters as BQL values): a legal          *)
(*            optimisation, the property holds;                            *)
(*   "host"   key = (text, the parameters as the HOST language compares    *)
(*            and hashes them: True == 1, False == 0): the deliberately    *)
(*            broken mechanism of a non-vacuity run -- the second of       *)
(*            execute(text, (1,)); execute(text, (TRUE,)) returns the      *)
(*            statement compiled for the first.                            *)
(***************************************************************************)
EXTENDS BQLMiniSem

CONSTANTS
    Stmts,          \* sequence of parsed texts: [q |-> statement whose placeholders are [k |-> "ph", pos, nm]]
    StmtParams,     \* StmtParams[s] : sequence of parameter values offered to statement s
                    \*    [kind |-> "seq" | "map", seq |-> <<value..>>, map |-> << <<name, value>>.. >>]
    ManyPairs,      \* executemany is called with <<StmtParams[s][i], StmtParams[s][j]>> for <<i, j>> in ManyPairs
    Data,           \* the tables
    NumberMode,     \* "shipped" | "conforming"
    MaxCalls

NStmts == Len(Stmts)
CacheMode == "none"     \* overridden (CacheMode <- ..) by the configurations that model a statement cache

(* ---- placeholder names ---- *)
NoName == [kind |-> "none", i |-> 0, id |-> ""]
Idx(i) == [kind |-> "idx", i |-> i, id |-> ""]
Ident(x) == [kind |-> "id", i |-> 0, id |-> x]
PyTruthy(name) == name.kind = "id" \/ (name.kind = "idx" /\ name.i # 0)      \* bool('') = bool(0) = False

(* placeholders in the order in which walking the tree finds them (targets, FROM, WHERE, ORDER BY) *)
RECURSIVE PhQ(_), PhE(_)
PhE(e) ==
    CASE e.k = "ph" -> << [pos |-> e.pos, nm |-> e.nm] >>
      [] e.k \in {"bin", "and"} -> PhE(e.l) \o PhE(e.r)
      [] e.k = "in" -> PhE(e.l) \o PhQ(e.q)
      [] e.k = "agg" -> PhE(e.e)
      [] OTHER -> <<>>
PhQ(q) ==
    FlattenSeq([j \in 1..Len(q.tg) |-> PhE(q.tg[j].e)])
    \o (IF q.from.k = "sub" THEN PhQ(q.from.q) ELSE <<>>)
    \o (IF q.wh = NoExpr THEN <<>> ELSE PhE(q.wh))
    \o FlattenSeq([k \in 1..Len(q.ord) |-> PhE(q.ord[k].e)])

Positions(q) == {PhQ(q)[i].pos : i \in 1..Len(PhQ(q))}
FreshNames(q) == [pos \in Positions(q) |->
                    LET ph == PhQ(q)[CHOOSE i \in 1..Len(PhQ(q)) : PhQ(q)[i].pos = pos]
                    IN IF ph.nm = "" THEN NoName ELSE Ident(ph.nm)]

(* ---- parameters ---- *)
Keys(p) == {p.map[i][1] : i \in 1..Len(p.map)}
MapGet(p, id) == p.map[CHOOSE i \in 1..Len(p.map) : p.map[i][1] = id][2]

(* substitute constants for placeholders *)
RECURSIVE SubstQ(_, _), SubstE(_, _)
SubstE(e, b) ==
    CASE e.k = "ph" -> [k |-> "c", v |-> b[e.pos]]
      [] e.k = "bin" -> [k |-> "bin", op |-> e.op, l |-> SubstE(e.l, b), r |-> SubstE(e.r, b)]
      [] e.k = "and" -> [k |-> "and", l |-> SubstE(e.l, b), r |-> SubstE(e.r, b)]
      [] e.k = "in" -> [k |-> "in", neg |-> e.neg, l |-> SubstE(e.l, b), q |-> SubstQ(e.q, b)]
      [] e.k = "agg" -> [k |-> "agg", f |-> e.f, e |-> SubstE(e.e, b)]
      [] OTHER -> e
SubstQ(q, b) ==
    [q EXCEPT !.tg = [j \in 1..Len(q.tg) |-> [q.tg[j] EXCEPT !.e = SubstE(@, b)]],
              !.from = IF q.from.k = "sub" THEN [k |-> "sub", q |-> SubstQ(q.from.q, b)] ELSE q.from,
              !.wh = IF q.wh = NoExpr THEN NoExpr ELSE SubstE(q.wh, b),
              !.ord = [k \in 1..Len(q.ord) |-> [q.ord[k] EXCEPT !.e = SubstE(@, b)]]]

-----------------------------------------------------------------------------
(* THE PROPERTY'S RIGHT-HAND SIDE: a function of text, parameters and data only *)
Matches(q, p) ==
    LET phs == PhQ(q) IN
    IF phs = <<>> THEN TRUE
    ELSE IF \A i \in 1..Len(phs) : phs[i].nm = "" THEN p.kind = "seq" /\ Len(p.seq) = Len(phs)
    ELSE IF \A i \in 1..Len(phs) : phs[i].nm # "" THEN p.kind = "map" /\ \A i \in 1..Len(phs) : phs[i].nm \in Keys(p)
    ELSE FALSE
(* left to right by TEXT position: the k-th `%s` of the text takes the k-th parameter *)
TextBinding(q, p) ==
    [pos \in Positions(q) |->
        LET ph == PhQ(q)[CHOOSE i \in 1..Len(PhQ(q)) : PhQ(q)[i].pos = pos]
        IN IF ph.nm = "" THEN p.seq[Cardinality({x \in Positions(q) : x <= pos})] ELSE MapGet(p, ph.nm)]
DenoteStmt(q, p, tabs) == Denote(SubstQ(q, TextBinding(q, p)), tabs)
ErrorResult == [ok |-> FALSE, desc |-> <<>>, rows |-> <<>>]

-----------------------------------------------------------------------------
(* THE MECHANISM'S STEPS as operators (the Trace module composes them, the actions below take them one by one) *)
Classify(nameset) ==
    IF NumberMode = "shipped"
    THEN IF \A n \in nameset : PyTruthy(n) THEN "named"            \* all(names)
         ELSE IF \A n \in nameset : ~PyTruthy(n) THEN "positional" \* not any(names)
         ELSE "mixed"
    ELSE IF \A n \in nameset : n.kind = "id" THEN "named"
         ELSE IF \A n \in nameset : n.kind # "id" THEN "positional"
         ELSE "mixed"

(* -> [ok, names] : names = the statement object's placeholder names after the step *)
NumberOp(q, names, p) ==
    LET phs == PhQ(q)
        nameset == {names[phs[i].pos] : i \in 1..Len(phs)}
        cls == Classify(nameset)
    IN IF phs = <<>> THEN [ok |-> TRUE, names |-> names]
       ELSE IF cls = "named"
            THEN [ok |-> p.kind = "map" /\ \A n \in nameset : n.id \in Keys(p), names |-> names]
       ELSE IF cls = "positional"
            THEN IF p.kind = "seq" /\ Len(p.seq) = Len(phs)
                 THEN [ok |-> TRUE,                                  \* indices by source position, into the object
                       names |-> [pos \in DOMAIN names |-> Idx(Cardinality({x \in DOMAIN names : x < pos}))]]
                 ELSE [ok |-> FALSE, names |-> names]
       ELSE [ok |-> FALSE, names |-> names]                          \* "positional and named parameters cannot be mixed"

BindOp(names, p) == [pos \in DOMAIN names |-> IF names[pos].kind = "idx" THEN p.seq[names[pos].i + 1]
                                              ELSE MapGet(p, names[pos].id)]
RunOp(q, binding, tabs) == Denote(SubstQ(q, binding), tabs)

(* the key under which a connection-level statement cache files execute(text s, p) *)
KeyVal(v) == IF CacheMode = "host" /\ v[1] = "b" THEN <<"i", v[2]>> ELSE v          \* hash(True) = hash(1), True == 1
CacheKey(s, p) == <<s, p.kind, [i \in 1..Len(p.seq) |-> KeyVal(p.seq[i])],
                    {<<p.map[i][1], KeyVal(p.map[i][2])>> : i \in 1..Len(p.map)}>>     \* tuple(p) / frozenset(p.items())

-----------------------------------------------------------------------------
VARIABLES
    stmts,      \* [1..NStmts -> [parsed |-> BOOLEAN, names |-> pos -> name]]  the parsed statement objects
    data,       \* the tables
    results,    \* the last completed call: [n, op, s, ps, res]
    cur,        \* the call in progress: [phase |-> "idle" | "number" | "bind" | "run", ...]
    cache       \* the connection's statement cache: CacheKey |-> the bound placeholders of the compiled statement

vars == <<stmts, data, results, cur, cache>>

EmptyFn == [x \in {} |-> 0]
Idle == [phase |-> "idle", op |-> "", s |-> 0, shared |-> FALSE, tmp |-> EmptyFn, ps |-> <<>>, k |-> 0, bound |-> EmptyFn]

Init ==
    /\ stmts = [s \in 1..NStmts |-> [parsed |-> FALSE, names |-> EmptyFn]]
    /\ data = Data
    /\ results = [n |-> 0, op |-> "", s |-> 0, ps |-> <<>>, res |-> ErrorResult]
    /\ cur = Idle
    /\ cache = EmptyFn

Text(s) == Stmts[s].q
ObjNames == IF cur.shared THEN stmts[cur.s].names ELSE cur.tmp
Param == StmtParams[cur.s][cur.ps[cur.k]]

(* connection.parse(text): a new statement object *)
Parse(s) ==
    /\ cur.phase = "idle" /\ results.n < MaxCalls
    /\ stmts' = [stmts EXCEPT ![s] = [parsed |-> TRUE, names |-> FreshNames(Text(s))]]
    /\ UNCHANGED <<data, results, cur, cache>>

(* cursor.execute(statement object, p) *)
Execute(s, i) ==
    /\ cur.phase = "idle" /\ results.n < MaxCalls /\ stmts[s].parsed
    /\ cur' = [Idle EXCEPT !.phase = "number", !.op = "execute", !.s = s, !.shared = TRUE, !.ps = <<i>>, !.k = 1]
    /\ UNCHANGED <<stmts, data, results, cache>>

(* cursor.execute(text, p): a statement found in the cache is run as it was compiled; otherwise parse, number, bind
   (Bind files the compiled statement) *)
ExecuteText(s, i) ==
    /\ cur.phase = "idle" /\ results.n < MaxCalls
    /\ LET key == CacheKey(s, StmtParams[s][i]) IN
       IF CacheMode # "none" /\ key \in DOMAIN cache
       THEN cur' = [Idle EXCEPT !.phase = "run", !.op = "text", !.s = s, !.ps = <<i>>, !.k = 1, !.bound = cache[key]]
       ELSE cur' = [Idle EXCEPT !.phase = "number", !.op = "text", !.s = s, !.tmp = FreshNames(Text(s)), !.ps = <<i>>, !.k = 1]
    /\ UNCHANGED <<stmts, data, results, cache>>

(* cursor.executemany(text, [p, p']) *)
ExecuteMany(s, ij) ==
    /\ cur.phase = "idle" /\ results.n < MaxCalls
    /\ cur' = [Idle EXCEPT !.phase = "number", !.op = "many", !.s = s, !.tmp = FreshNames(Text(s)), !.ps = ij, !.k = 1]
    /\ UNCHANGED <<stmts, data, results, cache>>

Finish(res) ==
    /\ results' = [n |-> results.n + 1, op |-> cur.op, s |-> cur.s, ps |-> cur.ps, res |-> res]
    /\ cur' = Idle

Number ==
    /\ cur.phase = "number"
    /\ LET r == NumberOp(Text(cur.s), ObjNames, Param) IN
       IF r.ok
       THEN /\ IF cur.shared THEN stmts' = [stmts EXCEPT ![cur.s].names = r.names] /\ cur' = [cur EXCEPT !.phase = "bind"]
               ELSE cur' = [cur EXCEPT !.phase = "bind", !.tmp = r.names] /\ UNCHANGED stmts
            /\ UNCHANGED results
       ELSE Finish(ErrorResult) /\ UNCHANGED stmts                   \* the exception leaves the call
    /\ UNCHANGED <<data, cache>>

Bind ==
    /\ cur.phase = "bind"
    /\ cur' = [cur EXCEPT !.phase = "run", !.bound = BindOp(ObjNames, Param)]
    /\ cache' = IF CacheMode # "none" /\ cur.op = "text"
                THEN LET key == CacheKey(cur.s, Param)
                     IN [x \in (DOMAIN cache) \cup {key} |-> IF x = key THEN BindOp(ObjNames, Param) ELSE cache[x]]
                ELSE cache
    /\ UNCHANGED <<stmts, data, results>>

Run ==
    /\ cur.phase = "run"
    /\ LET res == RunOp(Text(cur.s), cur.bound, data) IN
       IF cur.k < Len(cur.ps)
       THEN cur' = [cur EXCEPT !.phase = "number", !.k = @ + 1, !.bound = EmptyFn] /\ UNCHANGED results
       ELSE Finish(res)
    /\ UNCHANGED <<stmts, data, cache>>

Next ==
    \/ \E s \in 1..NStmts : Parse(s)
    \/ \E s \in 1..NStmts : \E i \in 1..Len(StmtParams[s]) : Execute(s, i) \/ ExecuteText(s, i)
    \/ \E s \in 1..NStmts : \E ij \in ManyPairs : ExecuteMany(s, ij)
    \/ Number \/ Bind \/ Run

Spec == Init /\ [][Next]_vars

-----------------------------------------------------------------------------
(* ---- the property ---- *)
AllMatch(s, ps) == \A k \in 1..Len(ps) : Matches(Text(s), StmtParams[s][ps[k]])
(* what a completed call must have returned: the denotation for the (last) parameter set; an error is acceptable
   only when some parameter set does not match the placeholders of the text *)
Expected(s, ps) == DenoteStmt(Text(s), StmtParams[s][ps[Len(ps)]], Data)
ResultIsDenote ==
    [][(results'.n = results.n + 1) =>
          (AllMatch(results'.s, results'.ps) => (results'.res = Expected(results'.s, results'.ps) /\ results'.res.ok))]_vars
(* the same as a state invariant (the history enters only through results.n) *)
ResultInv == (results.n > 0 /\ AllMatch(results.s, results.ps)) =>
                 (results.res = Expected(results.s, results.ps) /\ results.res.ok)
DataUnchanged == data = Data
DataNeverChanges == [][data' = data]_vars
(* a call that does not match never disturbs the statement object's ability to run later: implied by ResultInv over all histories *)
TypeOK == /\ cur.phase \in {"idle", "number", "bind", "run"}
          /\ results.n \in 0..MaxCalls

-----------------------------------------------------------------------------
(* ---- constant folding (compiler.py:499-503,531-534,575-578) on resolved expressions.

   Expressions of the folding cases add the boolean connectives and NULL tests to BQLMiniSem's kinds:
       [k |-> "or", l, r]   [k |-> "not", e]   [k |-> "isnull", e]
   and constants of every literal kind the model has, NULL and TRUE / FALSE included.  EvalX evaluates them per row
   (the pinned semantics, DESIGN Appendix B / C01: AND walks its operands left to right and stops at the first NULL
   (-> NULL) or false operand (-> FALSE); OR is TRUE when some operand is true, otherwise NULL when some operand is
   NULL, otherwise FALSE; NOT and IS NULL accept NULL: NOT NULL = TRUE).  On BQLMiniSem's kinds EvalX = EvalR.

   FoldX(mode, e) is the compiler's rewriting:
     "shipped"  an operator node (binary, NOT, IS NULL) whose operands are constants becomes the constant it
                evaluates to; AND / OR / IN nodes are kept;
     "full"     AND / OR nodes whose operands are all constants are folded too, by evaluating them;
     "absorb"   "full", and a constant FALSE operand decides an AND, a constant TRUE operand decides an OR, wherever
                it stands (the textbook short-cut -- NOT the value the row evaluation gives when a NULL stands
                before the FALSE: kept as the deliberately broken mechanism of the non-vacuity run).
   The property: Eval(Fold(e), row) = Eval(e, row) for every row. ---- *)
RECURSIVE EvalX(_, _)
EvalX(e, row) ==
    CASE e.k = "and" ->
           LET a == EvalX(e.l, row) IN
           IF IsErr(a) THEN Err ELSE IF IsNull(a) THEN Null ELSE IF ~Truthy(a) THEN B(FALSE)
           ELSE LET b == EvalX(e.r, row) IN
                IF IsErr(b) THEN Err ELSE IF IsNull(b) THEN Null ELSE B(Truthy(b))
      [] e.k = "or" ->
           LET a == EvalX(e.l, row) IN
           IF IsErr(a) THEN Err ELSE IF Truthy(a) THEN B(TRUE)
           ELSE LET b == EvalX(e.r, row) IN
                IF IsErr(b) THEN Err ELSE IF Truthy(b) THEN B(TRUE)
                ELSE IF IsNull(a) \/ IsNull(b) THEN Null ELSE B(FALSE)
      [] e.k = "not" -> LET a == EvalX(e.e, row) IN IF IsErr(a) THEN Err ELSE B(~Truthy(a))
      [] e.k = "isnull" -> LET a == EvalX(e.e, row) IN IF IsErr(a) THEN Err ELSE B(IsNull(a))
      [] e.k = "bin" ->
           LET a == EvalX(e.l, row) IN
           IF IsErr(a) THEN Err ELSE IF IsNull(a) THEN Null
           ELSE LET b == EvalX(e.r, row) IN
                IF IsErr(b) THEN Err ELSE IF IsNull(b) THEN Null ELSE ApplyBin(e.op, a, b)
      [] OTHER -> EvalR(e, row)

Or2(l, r) == [k |-> "or", l |-> l, r |-> r]
NotX(e) == [k |-> "not", e |-> e]
IsNullX(e) == [k |-> "isnull", e |-> e]

IsFalseConst(x) == x.k = "c" /\ ~IsNull(x.v) /\ ~Truthy(x.v)
IsTrueConst(x) == x.k = "c" /\ Truthy(x.v)

RECURSIVE FoldX(_, _)
FoldX(mode, e) ==
    LET C(n) == [k |-> "c", v |-> EvalX(n, <<>>)] IN
    CASE e.k = "bin" -> LET l == FoldX(mode, e.l) r == FoldX(mode, e.r) n == [k |-> "bin", op |-> e.op, l |-> l, r |-> r]
                        IN IF l.k = "c" /\ r.k = "c" THEN C(n) ELSE n
      [] e.k \in {"not", "isnull"} -> LET a == FoldX(mode, e.e) n == [k |-> e.k, e |-> a]
                                      IN IF a.k = "c" THEN C(n) ELSE n
      [] e.k \in {"and", "or"} ->
           LET l == FoldX(mode, e.l) r == FoldX(mode, e.r) n == [k |-> e.k, l |-> l, r |-> r] IN
           IF mode = "shipped" THEN n
           ELSE IF mode = "absorb" /\ e.k = "and" /\ (IsFalseConst(l) \/ IsFalseConst(r)) THEN [k |-> "c", v |-> B(FALSE)]
           ELSE IF mode = "absorb" /\ e.k = "or" /\ (IsTrueConst(l) \/ IsTrueConst(r)) THEN [k |-> "c", v |-> B(TRUE)]
           ELSE IF l.k = "c" /\ r.k = "c" THEN C(n) ELSE n
      [] OTHER -> e
Fold(e) == FoldX("shipped", e)

RECURSIVE IsConstant(_), IsOpConstant(_)
IsConstant(e) == CASE e.k = "c" -> TRUE
                   [] e.k \in {"bin", "and", "or"} -> IsConstant(e.l) /\ IsConstant(e.r)
                   [] e.k \in {"not", "isnull"} -> IsConstant(e.e)
                   [] OTHER -> FALSE
(* constant and built from operators only: these the compiler as shipped reduces to one constant *)
IsOpConstant(e) == CASE e.k = "c" -> TRUE
                     [] e.k = "bin" -> IsOpConstant(e.l) /\ IsOpConstant(e.r)
                     [] e.k \in {"not", "isnull"} -> IsOpConstant(e.e)
                     [] OTHER -> FALSE
FoldLawIn(mode, exprs, rows) ==
    \A e \in exprs : /\ \A r \in rows : EvalX(FoldX(mode, e), r) = EvalX(e, r)
                     /\ IsOpConstant(e) => FoldX(mode, e).k = "c"
                     /\ (mode # "shipped" /\ IsConstant(e)) => FoldX(mode, e).k = "c"
(* the same law for expressions of BQLMiniSem's kinds only (there EvalX = EvalR) *)
FoldLawOn(exprs, rows) ==
    \A e \in exprs : /\ \A r \in rows : EvalR(Fold(e), r) = EvalR(e, r)
                     /\ IsOpConstant(e) => Fold(e).k = "c"

(* ---- a scan: the compiled expression is evaluated once per row of a table, in table order.  A column holds one
   constant PER ROW ("evaluated per row from columns holding the same constants"): the value for a row is
   EvalX(e, that row) -- what the expression folds to over that row's constants --, whatever the other rows hold.
   ScanX(mode, e, rows) is the mechanism:
     "plain"       every row is evaluated on its own;
     "memo-value"  the compiled expression remembers the value it computed for the cells of a row, keyed by the cells
                   AS BQL VALUES (1 and TRUE are different keys): a legal optimisation;
     "memo-host"   the same, keyed as the host language compares and hashes the cells (True == 1, hash(True) = hash(1)):
                   a LATER row gets the value computed for an earlier, host-equal row -- kept as the deliberately
                   broken mechanism of the non-vacuity run.
   The property: ScanX(mode, e, rows)[i] = EvalX(e, rows[i]) for every table, every row of it. ---- *)
HostVal(v) == IF v[1] = "b" THEN <<"i", v[2]>> ELSE v
ScanKey(mode, row) == IF mode = "memo-host" THEN [j \in DOMAIN row |-> HostVal(row[j])] ELSE row
ScanX(mode, e, rows) ==
    [i \in 1..Len(rows) |->
        IF mode = "plain" THEN EvalX(e, rows[i])
        ELSE LET first == CHOOSE j \in 1..i : /\ ScanKey(mode, rows[j]) = ScanKey(mode, rows[i])
                                               /\ \A h \in 1..(j - 1) : ScanKey(mode, rows[h]) # ScanKey(mode, rows[i])
             IN EvalX(e, rows[first])]
ScanLawIn(mode, exprs, tables) ==
    \A e \in exprs : \A t \in tables : \A i \in 1..Len(t) : ScanX(mode, e, t)[i] = EvalX(e, t[i])
=============================================================================
