DEFAULT_NA = 'no check is registered for this property yet: its specification module and conformance drivers are still under construction (see DESIGN.md section 9 for the order)'
NOT_APPLICABLE = {}
NOTES = ('Every check runs three legs: TLC model-checks the mechanism specification against the declarative property (MC); '
         'TLC-generated behaviours/cases are replayed into the real code (S2C); executions recorded from the real code are '
         'validated by TLC against the specification (C2S). Exit 2 = machinery failure. known_findings.json lists genuine defects.')
ENGINES = [
    {'name': 'tlc', 'path': 'harness/tlc.py', 'serves_properties': [], 'kind_free_text': 'TLC 1.8 explicit-state model checker / simulator / trace validator over spec/*.tla'},
    {'name': 'replay-drivers', 'path': 'harness/props/', 'serves_properties': [], 'kind_free_text': 'Python drivers that replay TLC-emitted cases into beanquery and record executions for TLC to validate'},
]
CLAIMED = {
 'C10': dict(
  text='TLC checks exhaustively (2 cursors, results of 0-4 rows, all fetch sizes 0-5, arraysize 1-3; 33k states / 1.1M transitions) that the buffer/position mechanism of cursor.py satisfies the declarative protocol laws (delivered rows form a prefix of the result, rownumber = rows fetched, rowcount = size of the last result, execute resets, cursors isolated, None/[] exactly at exhaustion, Column 7-sequence protocol). The specification is bound to the code in both directions: every behaviour of the spec to depth 3-4 plus simulated behaviours of depth 14 is replayed on real cursors with every attribute compared after every call, and random histories of up to 60 calls on results of real queries are recorded and replayed through the spec actions by TLC with all invariants evaluated in every state.',
  note='Trusted: TLC 1.8 and the Json/IOUtils modules, CPython 3.12, harness/props/c10.py (projection of rows to their first column). Iteration is list(cursor) as one call and may or may not consume (both conform). fetchmany sizes >= 0.',
  technique='TLA+ state machine of the cursor (spec/Cursor.tla) model-checked with TLC; spec behaviours replayed into the code; recorded call histories trace-validated by TLC'),
}
