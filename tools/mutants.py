#!/usr/bin/env python3
"""Self-test of the machinery against the recorded realistic edits (mutants/mutants.json, seeded/*/patch.diff).

  tools/mutants.py [--prop C10] [--id name ...] [--jobs 4] [--tier quick]

Each mutant is applied to a scratch copy of /repo under /tmp (removed afterwards); the check for the property it
targets is run with VERIF_REPO pointing at the copy and must exit 1.  Never touches /repo or the evidence files.
"""
import argparse
import concurrent.futures as cf
import json
import os
import shutil
import subprocess
import sys
import tempfile

VERIF = os.path.dirname(os.path.dirname(os.path.abspath(__file__)))


def run_one(m, tier, keep_log):
    d = tempfile.mkdtemp(prefix='mut_%s_' % m['id'], dir='/tmp')
    try:
        repo = os.path.join(d, 'repo')
        subprocess.run(['git', '-C', '/repo', 'worktree', 'list'], capture_output=True)
        shutil.copytree('/repo', repo, ignore=shutil.ignore_patterns('.git', '__pycache__', '*.egg-info'))
        if 'patch' in m:
            r = subprocess.run(['git', 'apply', '--unsafe-paths', '--directory', repo, m['patch']], cwd='/',
                               capture_output=True, text=True)
            if r.returncode != 0:
                r = subprocess.run(['patch', '-p1', '-d', repo, '-i', m['patch']], capture_output=True, text=True)
                if r.returncode != 0:
                    return m, 'PATCH-FAIL', r.stdout[-300:] + r.stderr[-300:]
        else:
            p = os.path.join(repo, m['file'])
            s = open(p).read()
            if s.count(m['old']) != 1:
                return m, 'PATCH-FAIL', 'count=%d' % s.count(m['old'])
            open(p, 'w').write(s.replace(m['old'], m['new']))
        env = dict(os.environ, VERIF_REPO=repo, VERIF_EVIDENCE_DIR=os.path.join(d, 'evidence'), VERIF_TIER=tier)
        r = subprocess.run([os.path.join(VERIF, 'check'), m['property'], '--tier', tier], env=env, cwd=VERIF,
                           capture_output=True, text=True, timeout=3600)
        lines = [x for x in r.stdout.split('\n') if x.startswith(('VIOLATION', '  key=', 'MACHINERY', 'KNOWN'))]
        if keep_log:
            with open(os.path.join(keep_log, '%s.log' % m['id']), 'w') as f:
                f.write(r.stdout[-20000:] + r.stderr[-5000:])
        verdict = {1: 'CAUGHT', 0: 'MISSED', 2: 'MACHINERY'}.get(r.returncode, 'rc=%d' % r.returncode)
        return m, verdict, ' | '.join(lines[:6])[:600]
    finally:
        shutil.rmtree(d, ignore_errors=True)


def main():
    ap = argparse.ArgumentParser()
    ap.add_argument('--prop', action='append')
    ap.add_argument('--id', action='append')
    ap.add_argument('--jobs', type=int, default=4)
    ap.add_argument('--tier', default='quick')
    ap.add_argument('--logs', default=None)
    ap.add_argument('--seeded', action='store_true', help='also run seeded/*/patch.diff')
    ap.add_argument('--record', action='store_true', help='write the verdict into seeded/<id>/meta.json')
    a = ap.parse_args()
    ms = []
    for name in sorted(os.listdir(os.path.join(VERIF, 'mutants'))):
        if name.endswith('.json'):
            ms += json.load(open(os.path.join(VERIF, 'mutants', name)))
    sd = os.path.join(VERIF, 'seeded')
    if os.path.isdir(sd):
        for name in sorted(os.listdir(sd)):
            meta = os.path.join(sd, name, 'meta.json')
            if os.path.exists(meta):
                mj = json.load(open(meta))
                ms.append({'id': 'seeded-' + name, 'property': mj['property'], 'patch': os.path.join(sd, name, 'patch.diff')})
    if a.prop:
        ms = [m for m in ms if m['property'] in a.prop]
    if a.id:
        ms = [m for m in ms if m['id'] in a.id]
    if a.logs:
        os.makedirs(a.logs, exist_ok=True)
    bad = 0
    with cf.ThreadPoolExecutor(a.jobs) as ex:
        for m, verdict, info in ex.map(lambda m: run_one(m, a.tier, a.logs), ms):
            print('%-10s %-4s %-28s %s' % (verdict, m['property'], m['id'], info), flush=True)
            if a.record and m['id'].startswith('seeded-') and verdict in ('CAUGHT', 'MISSED'):
                mp = os.path.join(os.path.dirname(m['patch']), 'meta.json')
                mj = json.load(open(mp))
                import re as _re
                keys = _re.findall(r'key=(\S+)', info)
                mj['caught_by'] = {'check': './check %s --tier %s' % (m['property'], a.tier), 'verdict': verdict,
                                   'violation_keys': keys[:4]}
                json.dump(mj, open(mp, 'w'), indent=1)
            if verdict != 'CAUGHT':
                bad += 1
    print('%d mutants, %d not caught' % (len(ms), bad))
    return 1 if bad else 0


if __name__ == '__main__':
    sys.exit(main())
