#!/usr/bin/env python3
"""Regenerates MANIFEST.json from tools/manifest_data.py (single source for the per-property texts)."""
import json, os, sys
HERE = os.path.dirname(os.path.abspath(__file__))
sys.path.insert(0, HERE)
import manifest_data as D

props = [json.loads(l)['id'] for l in open(os.path.join(HERE, '..', 'properties.jsonl'))]
checks = []
for pid in props:
    if pid not in D.CLAIMED:
        continue
    c = D.CLAIMED[pid]
    checks.append({
        'property_id': pid,
        'quick_cmd': './check %s --tier quick' % pid,
        'thorough_cmd': './check %s --tier thorough' % pid,
        'evidence_file': 'evidence/%s.json' % pid,
        'replay_cmd_template': './check %s --replay {path}' % pid,
        'engine': c.get('engine', 'tlc'),
        'level_claimed': {'category': 'model_checking', 'text': c['text'], 'design_ref': 'DESIGN.md section 3, ' + pid},
        'level_note': c['note'],
        'technique': c['technique'],
    })
na = [{'property_id': pid, 'reason': D.NOT_APPLICABLE.get(pid, D.DEFAULT_NA)} for pid in props if pid not in D.CLAIMED]
man = {
    'version': 1,
    'setup_cmd': './tools/setup.sh',
    'hooks': {
        'guard': 'BEANQUERY_VERIF',
        'enable': 'no source hooks are needed: the checks drive the public API of /repo (PYTHONPATH=/repo, harness tables and a harness BQL function registered through public extension points); the guard name is reserved',
        'baseline_off_cmd': 'cd /repo && /venv/bin/python -m pytest -ra -q -p no:cacheprovider --timeout=900 --continue-on-collection-errors',
        'source_commits': [],
        'add_only': True,
    },
    'engines': D.ENGINES,
    'checks': checks,
    'notes': D.NOTES,
    'not_applicable': na,
}
json.dump(man, open(os.path.join(HERE, '..', 'MANIFEST.json'), 'w'), indent=1)
print('claimed', len(checks), 'not applicable', len(na))
