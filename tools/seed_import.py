#!/usr/bin/env python3
"""Confirm a seeded change produced by an independent sub-agent and file it under /verif/seeded/<id>/.

  tools/seed_import.py /tmp/seed_C03_out/A C03 c03-desc-ties

In a fresh scratch worktree of /repo's HEAD (removed afterwards):  demo on the clean tree must exit 0, the patch must
apply, demo with the patch must exit 1, and the repository's test-suite must give the baseline result (same failed set).
Then patch.diff, demo.py, notes.md are copied and meta.json is written.
"""
import json
import os
import re
import shutil
import subprocess
import sys
import tempfile

VERIF = os.path.dirname(os.path.dirname(os.path.abspath(__file__)))
BASE_FAILED = None


def run(cmd, cwd, timeout=1800):
    return subprocess.run(cmd, cwd=cwd, capture_output=True, text=True, timeout=timeout)


def pytest_result(wt):
    r = run(['/venv/bin/python', '-m', 'pytest', '-q', '-p', 'no:cacheprovider', '--timeout=900'], wt)
    failed = sorted(set(re.findall(r'^(?:FAILED|ERROR) (\S+)', r.stdout, re.M)))
    m = re.search(r'(\d+) passed', r.stdout)
    return int(m.group(1)) if m else 0, failed


def main():
    src, prop, sid = sys.argv[1], sys.argv[2], sys.argv[3]
    wt = tempfile.mkdtemp(prefix='seedchk_', dir='/tmp')
    os.rmdir(wt)
    subprocess.run(['git', '-C', '/repo', 'worktree', 'add', '-q', '--detach', wt, 'HEAD'], check=True)
    try:
        demo = os.path.join(src, 'demo.py')
        patch = os.path.join(src, 'patch.diff')
        r0 = run(['/venv/bin/python', demo], wt)
        base_pass, base_failed = pytest_result(wt)
        ap = run(['git', 'apply', patch], wt)
        if ap.returncode != 0:
            print('REJECT %s: patch does not apply: %s' % (sid, ap.stderr[:300]))
            return 1
        r1 = run(['/venv/bin/python', demo], wt)
        pas, failed = pytest_result(wt)
        imp = run(['/venv/bin/python', '-c', 'import sys; sys.path.insert(0, "."); import beanquery, beanquery.query_env, beanquery.shell'], wt)
        ok = (r0.returncode == 0 and r1.returncode == 1 and pas == base_pass and failed == base_failed and imp.returncode == 0)
        print('%s %s: demo clean rc=%d, demo patched rc=%d, tests %d passed / %d failed (baseline %d / %d), import rc=%d' % (
            'CONFIRMED' if ok else 'REJECT', sid, r0.returncode, r1.returncode, pas, len(failed), base_pass, len(base_failed), imp.returncode))
        if not ok:
            print(r0.stdout[-300:], r0.stderr[-300:], r1.stdout[-300:], r1.stderr[-300:])
            return 1
        dst = os.path.join(VERIF, 'seeded', sid)
        os.makedirs(dst, exist_ok=True)
        for n in ('patch.diff', 'demo.py', 'notes.md'):
            if os.path.exists(os.path.join(src, n)):
                shutil.copy(os.path.join(src, n), os.path.join(dst, n))
        notes = open(os.path.join(src, 'notes.md')).read() if os.path.exists(os.path.join(src, 'notes.md')) else ''
        head = subprocess.run(['git', '-C', '/repo', 'rev-parse', '--short', 'HEAD'], capture_output=True, text=True).stdout.strip()
        meta = {
            'property': prop,
            'id': sid,
            'origin': 'independent sub-agent given only the property text and a scratch worktree of /repo',
            'repo_head_when_confirmed': head,
            'needs_to_manifest': (notes.split('\n\n')[0][:600] if notes else ''),
            'confirmed_by': ['demo.py on the clean scratch worktree: exit 0', 'git apply patch.diff: ok',
                             'demo.py with the patch: exit 1 -- ' + (r1.stdout.strip().split('\n')[-1][:200] if r1.stdout.strip() else ''),
                             'pytest -q --timeout=900 with the patch: %d passed, %d failed (identical failed set to baseline)' % (pas, len(failed)),
                             'import beanquery, beanquery.query_env, beanquery.shell: ok'],
            'caught_by': None,
        }
        with open(os.path.join(dst, 'meta.json'), 'w') as f:
            json.dump(meta, f, indent=1)
        return 0
    finally:
        subprocess.run(['git', '-C', '/repo', 'worktree', 'remove', '--force', wt])
        shutil.rmtree(wt, ignore_errors=True)


if __name__ == '__main__':
    sys.exit(main())
