#!/bin/bash
# Confirm an independently written property-breaking change, file it under seeded/, and run the targeted quick check on it.
# usage: tools/seed_pipeline.sh <round> <cNN> <outdir>     e.g.  tools/seed_pipeline.sh r7 c10 /tmp/s8_c10_out
#   <outdir> holds patch.diff, demo.py (exit 0 on the clean tree, 1 with the patch) and optionally notes.md, as delivered
#   by a sub-agent that saw only the property text and a scratch worktree (never tell parallel agents to use `git stash`:
#   it is shared by all worktrees of /repo; `git apply -R` / `git apply` toggles a change safely).
# Everything happens in a fresh scratch worktree under /tmp that is removed again; /repo itself is never modified.
set -u
r=$1; p=$2; out=$3; P=$(echo $p | tr c C); V=$(cd "$(dirname "$0")/.." && pwd); w=/tmp/cf_${r}_$p
base=/tmp/base_failed_$$.txt
(cd /repo && /venv/bin/python -m pytest -q -p no:cacheprovider --timeout=900 beanquery 2>&1 | grep -E "^FAILED|^ERROR" | sort > $base)
git -C /repo worktree add --detach $w HEAD >/dev/null 2>&1 || { echo "cannot create $w"; exit 2; }
cd $w; ok=1
PYTHONPATH=$w timeout 300 /venv/bin/python $out/demo.py > $out/clean.txt 2>&1; [ $? = 0 ] || { echo "demo fails on the clean tree"; ok=0; }
git apply $out/patch.diff || { echo "patch does not apply"; ok=0; }
PYTHONPATH=$w timeout 300 /venv/bin/python $out/demo.py > $out/patched.txt 2>&1; [ $? = 1 ] || { echo "demo does not fail with the patch"; ok=0; }
PYTHONPATH=$w /venv/bin/python -c "import beanquery, beanquery.query_env, beanquery.shell" || { echo "package does not import"; ok=0; }
PYTHONPATH=$w /venv/bin/python -m pytest -q -p no:cacheprovider --timeout=900 beanquery > $out/pytest.txt 2>&1
grep -E "^FAILED|^ERROR" $out/pytest.txt | sort | diff -q $base - >/dev/null || { echo "the suite's failing set changed"; ok=0; }
cd /; git -C /repo worktree remove --force $w; rm -f $base
[ $ok = 1 ] || { echo "$r-$p-a NOT confirmed"; exit 1; }
d=$V/seeded/$r-$p-a; mkdir -p $d; cp $out/patch.diff $out/demo.py $d/; [ -f $out/notes.md ] && cp $out/notes.md $d/
python3 - $P $p $r $out $V <<'PY'
import json, sys, os, subprocess
P, p, r, out, V = sys.argv[1:]
notes = open(out + '/notes.md').read().strip() if os.path.exists(out + '/notes.md') else ''
patched = open(out + '/patched.txt').read().strip().splitlines()
head = subprocess.run(['git', '-C', '/repo', 'rev-parse', '--short', 'HEAD'], capture_output=True, text=True).stdout.strip()
meta = {"property": P, "id": f"{r}-{p}-a",
        "origin": "independent sub-agent given only the property text and a scratch worktree of /repo",
        "repo_head_when_confirmed": head, "needs_to_manifest": notes,
        "confirmed_by": ["demo.py on a clean scratch worktree: exit 0", "git apply patch.diff: ok",
                         "demo.py with the patch: exit 1 -- " + (patched[-1][:300] if patched else ''),
                         "pytest beanquery with the patch: failing set identical to the baseline",
                         "import beanquery, beanquery.query_env, beanquery.shell: ok"]}
json.dump(meta, open(f'{V}/seeded/{r}-{p}-a/meta.json', 'w'), indent=1)
PY
cd $V && python3 tools/mutants.py --id seeded-$r-$p-a --record
