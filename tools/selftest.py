#!/venv/bin/python
"""Binding self-test: a recorded trace with ONE corrupted field must be rejected by the trace specification at
exactly that line (and the uncorrupted trace accepted).  Run: tools/selftest.py   (exit 0 = binding demonstrated)

Covers the three trace specifications every SELECT / expression / cursor check relies on.
"""
import copy
import json
import os
import random
import shutil
import sys

HERE = os.path.dirname(os.path.abspath(__file__))
sys.path.insert(0, os.path.dirname(HERE))
from harness import core, tlc  # noqa: E402

core.bootstrap_repo()
from harness import exprcheck, selectcheck  # noqa: E402
from harness.props import c10  # noqa: E402

WORK = os.path.join(core.VERIF, '.work', 'selftest-%d' % os.getpid())


class FakeCtx:
    def __init__(self):
        self.rng = random.Random(7)
        self.skipped = 0
        self.traces = 0
        self.prop = 'SELFTEST'
        self.violations = []

    def case(self, *a, **k):
        pass

    def sample(self, *a, **k):
        pass

    def leg(self, *a, **k):
        pass

    def path(self, name):
        return os.path.join(WORK, name)

    def pick(self, q, t):
        return q

    def violation(self, *a, **k):
        self.violations.append(a)
        return False

    def log(self, *a):
        pass


def rejected_lines(module, cfg, path):
    res = tlc.run(module, cfg, WORK, workers=1, env={'TRACE_FILE': path}, timeout=600)
    return sorted(p['line'] for p in res.printed if isinstance(p, dict) and p.get('verdict') == 'rejected'), res


def corrupt_and_check(name, module, cfg, path, mutate, pick_line):
    lines = open(path).read().strip().split('\n')
    base, _ = rejected_lines(module, cfg, path)
    if base:
        print('FAIL %s: uncorrupted trace rejected at %s' % (name, base[:5]))
        return False
    k = pick_line(lines)
    ev = json.loads(lines[k])
    before = copy.deepcopy(ev)
    mutate(ev)
    lines2 = list(lines)
    lines2[k] = json.dumps(ev)
    p2 = path + '.corrupt'
    with open(p2, 'w') as f:
        f.write('\n'.join(lines2) + '\n')
    rej, _ = rejected_lines(module, cfg, p2)
    ok = (k + 1) in rej
    print('%s %s: corrupted line %d (%s) -> rejected lines %s' % ('ok  ' if ok else 'FAIL', name, k + 1,
                                                                   {x: (before[x], ev[x]) for x in ev if ev[x] != before.get(x)}, rej[:5]))
    return ok


def main():
    shutil.rmtree(WORK, ignore_errors=True)
    os.makedirs(WORK)
    ctx = FakeCtx()
    ok = True
    try:
        # cursor histories
        p = ctx.path('cursor.ndjson')
        c10.record_histories(ctx, p, 40, 30)

        def pick_fetch(lines):
            return next(i for i, l in enumerate(lines) if '"fetchmany"' in l and '"ret": [1' in l)
        ok &= corrupt_and_check('Trace_Cursor/rownumber', 'Trace_Cursor', 'Trace_Cursor.cfg', p,
                                lambda ev: ev.__setitem__('rownumber', ev['rownumber'] + 1), pick_fetch)
        ok &= corrupt_and_check('Trace_Cursor/ret', 'Trace_Cursor', 'Trace_Cursor.cfg', p,
                                lambda ev: ev.__setitem__('ret', ev['ret'] + [ev['ret'][-1]]), pick_fetch)
        ok &= corrupt_and_check('Trace_Cursor/rowcount', 'Trace_Cursor', 'Trace_Cursor.cfg', p,
                                lambda ev: ev.__setitem__('rowcount', ev['rowcount'] - 1), pick_fetch)
        # expressions
        p = ctx.path('expr.ndjson')
        exprcheck.random_cases(ctx, p, 150, 4, 6)

        def pick_vals(lines):
            return next(i for i, l in enumerate(lines) if json.loads(l)['ok'] and any(v[0] == 'int' for v in json.loads(l)['vals']))

        def bump(ev):
            for v in ev['vals']:
                if v[0] == 'int':
                    v[1] += 1
                    return
        ok &= corrupt_and_check('Trace_Expr/value', 'Trace_Expr', 'Trace_Expr.cfg', p, bump, pick_vals)
        ok &= corrupt_and_check('Trace_Expr/accepted', 'Trace_Expr', 'Trace_Expr.cfg', p,
                                lambda ev: ev.__setitem__('ok', not ev['ok']), pick_vals)
        # selects
        gen = selectcheck.RandomQueries(ctx.rng)
        p = ctx.path('select_order.ndjson')

        class C2(FakeCtx):
            pass
        # reuse the recorder but keep the file: record_and_validate validates too, so call it through a tiny shim
        ctx2 = FakeCtx()
        ctx2.tlc = lambda *a, **k: tlc.run(a[0], a[1], WORK, workers=1, env=k.get('env'))
        selectcheck.record_and_validate(ctx2, 'order', 120, 12)
        p = ctx2.path('select_order.ndjson')

        def pick_rows(lines):
            return next(i for i, l in enumerate(lines) if json.loads(l)['ok'] and len(json.loads(l)['out']) >= 2
                        and json.loads(l)['out'][0] != json.loads(l)['out'][1] and json.loads(l)['q']['order'])

        def swap(ev):
            ev['out'][0], ev['out'][1] = ev['out'][1], ev['out'][0]
        ok &= corrupt_and_check('Trace_Select/row order', 'Trace_Select', 'Trace_Select.cfg', p, swap, pick_rows)
        ok &= corrupt_and_check('Trace_Select/name', 'Trace_Select', 'Trace_Select.cfg', p,
                                lambda ev: ev.__setitem__('names', ev['names'][:-1] + ['zz']), pick_rows)
    finally:
        shutil.rmtree(WORK, ignore_errors=True)
    print('binding self-test:', 'PASSED' if ok else 'FAILED')
    return 0 if ok else 1


if __name__ == '__main__':
    sys.exit(main())
