#!/bin/sh
# offline setup: nothing is compiled; parse every specification module and smoke-test the imports
cd "$(dirname "$0")/../spec" || exit 1
LOG="../.work/sany.$$.log"
mkdir -p ../.work
for f in *.tla; do
  if ! java -cp /opt/veriftools/tla/tla2tools.jar:/opt/veriftools/tla/CommunityModules-deps.jar tla2sany.SANY "$f" > "$LOG" 2>&1; then
    cat "$LOG"; echo "SANY failed on $f"; exit 1
  fi
  if grep -q "^\*\*\* Errors\|Fatal errors" "$LOG"; then cat "$LOG"; echo "SANY errors in $f"; exit 1; fi
done
rm -f "$LOG"
cd ..
PYTHONPATH=/repo /venv/bin/python -c "import beanquery, beanquery.query_env; print('beanquery import ok')" || exit 1
echo setup ok
